"""Re-run the checks against a stored seeded change.

usage: python tools_seed_recheck.py <ID-n> [check ids...]
Creates a scratch worktree of /repo HEAD under /tmp/recheck/<ID-n>, applies
seeded/<ID-n>/patch.diff (rebuilding the Rust extension for Rust changes), runs
the checks (default: the ones recorded in meta.json) with VERIF_REPO pointing at
it, updates meta.json["checks_run"] and removes the worktree again.
"""
import json, os, shutil, subprocess, sys, time

name = sys.argv[1]
d = f"/verif/seeded/{name}"
meta = json.load(open(f"{d}/meta.json"))
checks = sys.argv[2:] or list(meta.get("checks_run", {}).keys()) or [name.split("-")[0]]
wt = f"/tmp/recheck/{name}"

def sh(cmd, **kw):
    return subprocess.run(cmd, shell=True, capture_output=True, text=True, **kw)

os.makedirs("/tmp/recheck", exist_ok=True)
sh(f"git -C /repo worktree remove --force {wt}")
r = sh(f"git -C /repo worktree add -q --detach {wt} HEAD")
assert r.returncode == 0, r.stderr
try:
    sh(f"cp /repo/src/sedpack/_sedpack_rs*.so {wt}/src/sedpack/")
    r = sh(f"git -C {wt} apply {d}/patch.diff")
    if r.returncode != 0:
        print(name, "PATCH DOES NOT APPLY to current HEAD (kept earlier result):", r.stderr.strip().splitlines()[-1])
        sys.exit(0)
    head = sh("git -C /repo rev-parse --short HEAD").stdout.strip()
    results = {}
    for c in checks:
        t0 = time.time()
        r = sh(f"cd /verif && VERIF_REPO={wt} ./check {c} --no-evidence", env=dict(os.environ))
        lines = [l for l in r.stdout.splitlines() if l.startswith("VIOLATION") or l.startswith("  clause=") or l.startswith("HARNESS")]
        results[c] = {"caught": r.returncode == 1, "rc": r.returncode, "wall_s": round(time.time() - t0, 1), "lines": lines[:6]}
    if "first_contact" not in meta and os.environ.get("KEEP_FIRST_CONTACT"):
        # the result of the blind evaluation (before any strengthening)
        meta["first_contact"] = meta.get("checks_run", {})
    meta["checks_run"] = results
    meta["repo_head"] = head
    meta["how_run"] = "patch applied in a scratch worktree of /repo HEAD; ./check <ID> --tier quick with VERIF_REPO=<worktree> (final re-check of all seeded changes)"
    json.dump(meta, open(f"{d}/meta.json", "w"), indent=1)
    print(name, {c: (v["rc"], (v["lines"][1:2] or [""])[0].strip()[:90], v["wall_s"]) for c, v in results.items()})
finally:
    sh(f"git -C /repo worktree remove --force {wt}")
    shutil.rmtree(f"/verif/.build/ext-" + __import__("hashlib").sha1(wt.encode()).hexdigest()[:8], ignore_errors=True)
    shutil.rmtree(f"/verif/.build/h-" + __import__("hashlib").sha1(wt.encode()).hexdigest()[:8], ignore_errors=True)
    shutil.rmtree(f"/verif/.build/hsrc-" + __import__("hashlib").sha1(wt.encode()).hexdigest()[:8], ignore_errors=True)
