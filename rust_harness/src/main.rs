// Dumb executor for Hypothesis-generated cases against
// sedpack_rs::parallel_map::parallel_map (the generic iterator behind the
// Rust reader).  One case per stdin line:
//   n T take delays_us(comma separated, cycled)    e.g. "7 3 -1 0,2000,0"
// take = -1: consume everything; take = k: consume k results then drop.
// Output per case (one line):
//   out=<comma list> pulled_at=<comma list> pulled_end=<n> threads_before=<a> threads_mid=<b> threads_after=<c>
// pulled_at[j] = number of source items pulled when result j was delivered.
use std::io::BufRead;
use std::sync::atomic::{AtomicUsize, Ordering};
use std::sync::Arc;

fn os_threads() -> usize {
    std::fs::read_dir("/proc/self/task").map(|d| d.count()).unwrap_or(0)
}

#[derive(Clone)]
struct Item {
    idx: u64,
    delay_us: u64,
}

fn work(item: Item) -> u64 {
    if item.delay_us > 0 {
        std::thread::sleep(std::time::Duration::from_micros(item.delay_us));
    }
    item.idx * 2 + 1
}

struct Source {
    next: u64,
    n: Option<u64>, // None = infinite
    delays: Vec<u64>,
    pulled: Arc<AtomicUsize>,
}

impl Iterator for Source {
    type Item = Item;
    fn next(&mut self) -> Option<Item> {
        if let Some(n) = self.n {
            if self.next >= n {
                return None;
            }
        }
        let idx = self.next;
        self.next += 1;
        self.pulled.fetch_add(1, Ordering::SeqCst);
        let delay_us =
            if self.delays.is_empty() { 0 } else { self.delays[(idx as usize) % self.delays.len()] };
        Some(Item { idx, delay_us })
    }
}

fn main() {
    let stdin = std::io::stdin();
    for line in stdin.lock().lines() {
        let line = line.unwrap();
        let parts: Vec<&str> = line.split_whitespace().collect();
        if parts.len() < 3 {
            continue;
        }
        let n: i64 = parts[0].parse().unwrap();
        let threads: usize = parts[1].parse().unwrap();
        let take: i64 = parts[2].parse().unwrap();
        let delays: Vec<u64> = if parts.len() > 3 && !parts[3].is_empty() {
            parts[3].split(',').filter(|s| !s.is_empty()).map(|s| s.parse().unwrap()).collect()
        } else {
            Vec::new()
        };
        let pulled = Arc::new(AtomicUsize::new(0));
        let source = Source {
            next: 0,
            n: if n < 0 { None } else { Some(n as u64) },
            delays,
            pulled: pulled.clone(),
        };
        let before = os_threads();
        let mut out: Vec<u64> = Vec::new();
        let mut pulled_at: Vec<usize> = Vec::new();
        let mid;
        {
            let mut pm = sedpack_rs::parallel_map::parallel_map(work, source, threads);
            loop {
                if take >= 0 && (out.len() as i64) >= take {
                    break;
                }
                match pm.next() {
                    Some(v) => {
                        out.push(v);
                        pulled_at.push(pulled.load(Ordering::SeqCst));
                    }
                    None => break,
                }
            }
            mid = os_threads();
            // pm dropped here: must stop and join its threads
        }
        // a joined thread may linger in /proc for a moment: poll, a real leak persists
        let mut after = os_threads();
        let deadline = std::time::Instant::now() + std::time::Duration::from_secs(3);
        while after > before && std::time::Instant::now() < deadline {
            std::thread::sleep(std::time::Duration::from_millis(1));
            after = os_threads();
        }
        let outs: Vec<String> = out.iter().map(|x| x.to_string()).collect();
        let pulls: Vec<String> = pulled_at.iter().map(|x| x.to_string()).collect();
        println!(
            "out={} pulled_at={} pulled_end={} threads_before={} threads_mid={} threads_after={}",
            outs.join(","),
            pulls.join(","),
            pulled.load(Ordering::SeqCst),
            before,
            mid,
            after
        );
    }
}
