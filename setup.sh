#!/bin/sh
# MANIFEST.setup_cmd: offline preparation after a fresh restore.
set -e
cd "$(dirname "$0")"
export CARGO_NET_OFFLINE=true PIP_NO_INDEX=1
# hypothesis beside the repository's packages (no network)
/venv/bin/python -c "import hypothesis" 2>/dev/null || \
  /venv/bin/pip install --no-index --find-links /opt/veriftools/wheels hypothesis
# cold cargo builds (the checks rebuild incrementally from /repo's working tree)
/venv/bin/python - <<'PY'
from vlib import env
print("ext:", env.build_rust_ext())
import os
if os.path.isdir("rust_harness"):
    print("harness:", env.build_rust_harness())
PY
mkdir -p evidence violations
echo setup ok
