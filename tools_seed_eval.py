"""Confirm a seeded change and run the checks against it.

usage: python tools_seed_eval.py <ID> <n> [check ids...]
  /tmp/seed/<ID>/seed/change<n>/{patch.diff,demo.py,meta.json}
Confirms in the scratch worktree /tmp/seed/<ID>: demo fails with the change,
existing tests pass with it, demo passes without it.  Then runs the named
checks (default: <ID>) with VERIF_REPO pointing at the patched worktree and
stores everything under /verif/seeded/<ID>-<n>/.
"""
import json, os, shutil, subprocess, sys, time

pid, n = sys.argv[1], sys.argv[2]
checks = sys.argv[3:] or [pid]
base = os.environ.get("SEED_DIR", "/tmp/seed")
off = int(os.environ.get("SEED_OFFSET", "0"))   # round 2: stored as <ID>-3, <ID>-4
wt = f"{base}/{pid}"
src = f"{wt}/seed/change{n}"
dst = f"/verif/seeded/{pid}-{int(n) + off}"
env = dict(os.environ, PYTHONPATH=f"{wt}/src", TF_CPP_MIN_LOG_LEVEL="3")

def sh(cmd, **kw):
    return subprocess.run(cmd, shell=True, capture_output=True, text=True, **kw)

def demo():
    try:
        r = subprocess.run(["/venv/bin/python", f"{src}/demo.py"], env=env, cwd="/tmp", capture_output=True, text=True, timeout=600)
        return r.returncode, (r.stdout + r.stderr)[-800:]
    except subprocess.TimeoutExpired:
        return 124, "timeout"

meta = json.load(open(f"{src}/meta.json"))
rust = meta.get("language") == "rust"
sh(f"git -C {wt} checkout -- .")
head = sh("git -C /repo rev-parse HEAD").stdout.strip()
sh(f"git -C {wt} checkout -q --detach {head}")   # evaluate against the current tree
sh(f"cp /repo/src/sedpack/_sedpack_rs*.so {wt}/src/sedpack/")
r = sh(f"git -C {wt} apply {src}/patch.diff")
assert r.returncode == 0, r.stderr
if rust:
    r = sh(f"cd {wt}/rust && CARGO_TARGET_DIR={wt}/rust_target PYO3_PYTHON=/venv/bin/python cargo build --release --offline --features pyo3/extension-module && cp {wt}/rust_target/release/libsedpack_rs.so {wt}/src/sedpack/_sedpack_rs.cpython-312-x86_64-linux-gnu.so")
    assert r.returncode == 0, r.stderr[-2000:]
conf = {}
rc, out = demo()
conf["demo_fails_with_change"] = rc != 0
conf["demo_rc_with_change"] = rc
t = sh(f"cd {wt} && /venv/bin/python -m pytest -q -p no:cacheprovider -n 6 --timeout=900 tests 2>&1 | tail -3", env=env)
conf["tests_with_change"] = t.stdout.strip().splitlines()[-1] if t.stdout.strip() else t.stderr[-300:]
conf["tests_pass_with_change"] = " passed" in conf["tests_with_change"] and "failed" not in conf["tests_with_change"] and "error" not in conf["tests_with_change"]
results = {}
for c in checks:
    t0 = time.time()
    r = sh(f"cd /verif && VERIF_REPO={wt} ./check {c} --no-evidence", env=dict(os.environ))
    lines = [l for l in r.stdout.splitlines() if l.startswith("VIOLATION") or l.startswith("  clause=") or l.startswith("HARNESS")]
    results[c] = {"rc": r.returncode, "wall_s": round(time.time() - t0, 1), "lines": lines[:6],
                  "detail": [l for l in r.stdout.splitlines() if l.startswith("  ") and "signature" not in l][1:3]}
sh(f"git -C {wt} checkout -- .")
if rust:
    sh(f"cp /repo/src/sedpack/_sedpack_rs*.so {wt}/src/sedpack/; rm -rf {wt}/rust_target")
rc, out2 = demo()
conf["demo_passes_without_change"] = rc == 0
os.makedirs(dst, exist_ok=True)
shutil.copy(f"{src}/patch.diff", dst)
shutil.copy(f"{src}/demo.py", dst)
meta["confirmed_by_me"] = conf
meta["checks_run"] = {c: {"caught": results[c]["rc"] == 1, **results[c]} for c in checks}
meta["repo_head"] = head
meta["how_run"] = "patch applied in scratch worktree; ./check <ID> with VERIF_REPO=<worktree> (quick tier, VERIF_SEED default)"
json.dump(meta, open(f"{dst}/meta.json", "w"), indent=1)
print(pid, n, json.dumps(conf), {c: (results[c]["rc"], results[c]["lines"][:2], results[c]["wall_s"]) for c in checks})
