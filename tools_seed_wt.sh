#!/bin/sh
# usage: tools_seed_wt.sh <name> [basedir]  -> creates <basedir>/<name> (default /tmp/seed), a detached worktree of /repo HEAD
set -e
base=${2:-/tmp/seed}
d=$base/$1
mkdir -p $base
git -C /repo worktree add -q --detach "$d" HEAD
cp /repo/src/sedpack/_sedpack_rs*.so "$d/src/sedpack/"
mkdir -p "$d/seed"
echo "$d"
