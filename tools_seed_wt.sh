#!/bin/sh
# usage: tools_seed_wt.sh <name>   -> creates /tmp/seed/<name>, a detached worktree of /repo HEAD
set -e
d=/tmp/seed/$1
mkdir -p /tmp/seed
git -C /repo worktree add -q --detach "$d" HEAD
cp /repo/src/sedpack/_sedpack_rs*.so "$d/src/sedpack/"
mkdir -p "$d/seed"
echo "$d"
