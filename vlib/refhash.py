"""Reference digests that share no code with sedpack.io.utils.hash_checksums:
hashlib one-shot for the ten hashlib algorithms, own pure-Python XXH32/XXH64,
and the one-shot XXH3-128 of the xxhash wheel (no streaming, no name mapping
shared with the code under test)."""
from __future__ import annotations

import hashlib

HASHLIB = [
    "md5", "sha1", "sha224", "sha256", "sha384", "sha512", "sha3_224",
    "sha3_256", "sha3_384", "sha3_512"
]

M32 = 0xFFFFFFFF
M64 = 0xFFFFFFFFFFFFFFFF
P32 = (2654435761, 2246822519, 3266489917, 668265263, 374761393)
P64 = (11400714785074694791, 14029467366897019727, 1609587929392839161,
       9650029242287828579, 2870177450012600261)


def _rotl32(x, r):
    return ((x << r) | (x >> (32 - r))) & M32


def _rotl64(x, r):
    return ((x << r) | (x >> (64 - r))) & M64


def xxh32(data: bytes, seed: int = 0) -> int:
    n = len(data)
    i = 0
    if n >= 16:
        v1 = (seed + P32[0] + P32[1]) & M32
        v2 = (seed + P32[1]) & M32
        v3 = seed & M32
        v4 = (seed - P32[0]) & M32
        while i <= n - 16:
            w = int.from_bytes(data[i:i + 16], "little")
            l1, l2, l3, l4 = (w & M32, (w >> 32) & M32, (w >> 64) & M32,
                              (w >> 96) & M32)
            v1 = (_rotl32((v1 + l1 * P32[1]) & M32, 13) * P32[0]) & M32
            v2 = (_rotl32((v2 + l2 * P32[1]) & M32, 13) * P32[0]) & M32
            v3 = (_rotl32((v3 + l3 * P32[1]) & M32, 13) * P32[0]) & M32
            v4 = (_rotl32((v4 + l4 * P32[1]) & M32, 13) * P32[0]) & M32
            i += 16
        h = (_rotl32(v1, 1) + _rotl32(v2, 7) + _rotl32(v3, 12) +
             _rotl32(v4, 18)) & M32
    else:
        h = (seed + P32[4]) & M32
    h = (h + n) & M32
    while i <= n - 4:
        k = int.from_bytes(data[i:i + 4], "little")
        h = (_rotl32((h + k * P32[2]) & M32, 17) * P32[3]) & M32
        i += 4
    while i < n:
        h = (_rotl32((h + data[i] * P32[4]) & M32, 11) * P32[0]) & M32
        i += 1
    h ^= h >> 15
    h = (h * P32[1]) & M32
    h ^= h >> 13
    h = (h * P32[2]) & M32
    h ^= h >> 16
    return h


def _round64(acc, inp):
    acc = (acc + inp * P64[1]) & M64
    return (_rotl64(acc, 31) * P64[0]) & M64


def _merge64(acc, val):
    acc ^= _round64(0, val)
    return (acc * P64[0] + P64[3]) & M64


def xxh64(data: bytes, seed: int = 0) -> int:
    n = len(data)
    i = 0
    if n >= 32:
        v1 = (seed + P64[0] + P64[1]) & M64
        v2 = (seed + P64[1]) & M64
        v3 = seed & M64
        v4 = (seed - P64[0]) & M64
        while i <= n - 32:
            w = int.from_bytes(data[i:i + 32], "little")
            v1 = _round64(v1, w & M64)
            v2 = _round64(v2, (w >> 64) & M64)
            v3 = _round64(v3, (w >> 128) & M64)
            v4 = _round64(v4, (w >> 192) & M64)
            i += 32
        h = (_rotl64(v1, 1) + _rotl64(v2, 7) + _rotl64(v3, 12) +
             _rotl64(v4, 18)) & M64
        h = _merge64(h, v1)
        h = _merge64(h, v2)
        h = _merge64(h, v3)
        h = _merge64(h, v4)
    else:
        h = (seed + P64[4]) & M64
    h = (h + n) & M64
    while i <= n - 8:
        k = _round64(0, int.from_bytes(data[i:i + 8], "little"))
        h = (_rotl64(h ^ k, 27) * P64[0] + P64[3]) & M64
        i += 8
    if i <= n - 4:
        k = int.from_bytes(data[i:i + 4], "little")
        h = (_rotl64(h ^ ((k * P64[0]) & M64), 23) * P64[1] + P64[2]) & M64
        i += 4
    while i < n:
        h = (_rotl64(h ^ ((data[i] * P64[4]) & M64), 11) * P64[0]) & M64
        i += 1
    h ^= h >> 33
    h = (h * P64[1]) & M64
    h ^= h >> 29
    h = (h * P64[2]) & M64
    h ^= h >> 32
    return h


def ref_digest(algo: str, data: bytes) -> str:
    if algo in HASHLIB:
        return getattr(hashlib, algo)(data).hexdigest()
    if algo == "xxh32":
        return f"{xxh32(data):08x}"
    if algo == "xxh64":
        return f"{xxh64(data):016x}"
    if algo == "xxh128":
        import xxhash
        return xxhash.xxh3_128_hexdigest(data)
    raise ValueError(algo)


def ref_digests(algos, data: bytes) -> tuple:
    return tuple(ref_digest(a, data) for a in algos)


# published known-answer vectors (xxHash repository / RFC-style test values)
KNOWN_ANSWERS = [
    ("xxh32", b"", "02cc5d05"),
    ("xxh64", b"", "ef46db3751d8e999"),
    ("xxh128", b"", "99aa06d3014798d86001c324468d497f"),
    ("xxh32", b"a", "550d7456"),
    ("xxh64", b"a", "d24ec4f1a98c6e5b"),
    ("xxh32", b"Nobody inspects the spammish repetition", "e2293b2f"),
    ("xxh64", b"Nobody inspects the spammish repetition", "fbcea83c8a378bf1"),
    ("md5", b"", "d41d8cd98f00b204e9800998ecf8427e"),
    ("sha256", b"abc",
     "ba7816bf8f01cfea414140de5dae2223b00361a396177a9cb410ff61f20015ad"),
]


def self_test() -> None:
    for algo, data, want in KNOWN_ANSWERS:
        got = ref_digest(algo, data)
        if got != want:
            raise AssertionError(f"reference {algo}({data!r}) = {got}, "
                                 f"published {want}")
