"""Deterministic scheduler shim for sedpack.io.itertools.lazy_pool.

Real threads, but exactly one runs at a time: a participant runs from one queue
operation to the next and then parks.  Which parked participant continues is
decided by the case's ``choices`` list, so the interleaving at queue-operation
granularity is a pure function of the case (generated, shrunk and replayed like
any other value).  Deadlock is detected without a clock: every live participant
is parked and none is enabled.

Choice semantics: at every scheduling point the enabled participants are
ordered [current participant (if enabled), others by creation order]; the next
element c of ``choices`` selects ``enabled[c % len(enabled)]`` (so 0 means "no
preemption").  When the list is exhausted a fair policy takes over (longest
waiting first; timeouts on empty queues last).

A blocking ``get(timeout=...)`` / ``put(timeout=...)`` that cannot proceed is
still *enabled*: choosing it makes the timeout fire (queue.Empty / queue.Full).
That models arbitrarily slow peers, which "every interleaving" includes.
"""
from __future__ import annotations

import collections
import queue as _real_queue
import threading
import types


class SchedAbort(BaseException):
    """Raised inside parked threads when the case is aborted."""


class UnsupportedPrimitive(Exception):
    """The code under test uses something the shim does not model."""


class Participant:

    def __init__(self, name: str, index: int):
        self.name = name
        self.index = index
        self.sem = threading.Semaphore(0)
        self.op = None  # pending operation (tuple) while parked
        self.alive = True
        self.abort = False
        self.parked_evt = threading.Event()
        self.since = 0  # step at which it parked (fairness)


class Scheduler:

    def __init__(self, choices, max_steps: int = 20000):
        self.choices = list(choices)
        self.ci = 0
        self.max_steps = max_steps
        self.mutex = threading.Lock()
        self.parts: list[Participant] = []
        self.by_tid: dict[int, Participant] = {}
        self.current: Participant | None = None
        self.trace: list[str] = []
        self.branching: list[int] = []  # enabled-set size per decision
        self.taken: list[int] = []  # index taken per decision
        self.preemptible: list[bool] = []  # was current enabled there?
        self.deadlock: dict | None = None
        self.step_limit_hit = False
        self.steps = 0
        self.timeouts_fired = 0
        self.threads: list[threading.Thread] = []

    # ---- participants ----------------------------------------------------
    def register_current(self, name: str) -> Participant:
        p = Participant(name, len(self.parts))
        self.parts.append(p)
        self.by_tid[threading.get_ident()] = p
        self.current = p
        return p

    def me(self) -> Participant:
        p = self.by_tid.get(threading.get_ident())
        if p is None:
            raise UnsupportedPrimitive(
                "queue operation from a thread the shim does not know")
        return p

    # called by the patched Collector.start (in the starting thread)
    def spawn(self, thread: threading.Thread, orig_start) -> None:
        with self.mutex:
            p = Participant(f"w{len(self.parts)}", len(self.parts))
            self.parts.append(p)
        thread._verif_part = p  # pylint: disable=protected-access
        thread.daemon = True
        self.threads.append(thread)
        orig_start(thread)
        p.parked_evt.wait()

    # called first thing in the new thread
    def thread_begin(self, thread: threading.Thread) -> Participant:
        p = thread._verif_part  # pylint: disable=protected-access
        with self.mutex:
            self.by_tid[threading.get_ident()] = p
            p.op = ("start",)
            p.since = self.steps
        p.parked_evt.set()
        p.sem.acquire()
        if p.abort:
            raise SchedAbort()
        return p

    def thread_end(self, p: Participant) -> None:
        with self.mutex:
            p.alive = False
            p.op = None
            if not self._aborting():
                self._dispatch()

    # ---- scheduling points -----------------------------------------------
    def _aborting(self) -> bool:
        return self.deadlock is not None or self.step_limit_hit

    def point(self, op: tuple) -> None:
        """Park with pending operation ``op`` until granted."""
        p = self.me()
        if p.abort:
            raise SchedAbort()
        with self.mutex:
            p.op = op
            p.since = self.steps
            self._dispatch()
        p.sem.acquire()
        if p.abort:
            raise SchedAbort()

    def _enabled(self, p: Participant) -> tuple[bool, bool]:
        """(enabled, via_timeout)"""
        op = p.op
        kind = op[0]
        if kind == "start":
            return True, False
        if kind == "drain":
            return all(not q.alive or q is p for q in self.parts), False
        if kind == "alive":
            return True, False
        if kind == "join":
            target, timeout = op[1], op[2]
            if not target.alive:
                return True, False
            return (timeout is not None), (timeout is not None)
        q = op[1]
        if kind in ("empty", "qsize", "full", "put_nowait", "get_nowait"):
            return True, False
        if kind == "get":
            if q.items:
                return True, False
            block, timeout = op[2], op[3]
            if not block or timeout is not None:
                return True, True
            return False, False
        if kind == "put":
            if q.maxsize <= 0 or len(q.items) < q.maxsize:
                return True, False
            block, timeout = op[2], op[3]
            if not block or timeout is not None:
                return True, True
            return False, False
        raise UnsupportedPrimitive(f"operation {kind}")

    def _dispatch(self) -> None:
        """mutex held; the caller has just parked or ended."""
        self.steps += 1
        parked = [p for p in self.parts if p.alive and p.op is not None]
        if not parked:
            self.current = None
            return
        if self.steps > self.max_steps:
            self.step_limit_hit = True
            self._abort_all(parked)
            return
        status = [(p, *self._enabled(p)) for p in parked]
        enabled = [(p, tmo) for p, en, tmo in status if en]
        if not enabled:
            self.deadlock = {
                "waiting": [(p.name, self._describe(p.op)) for p in parked],
                "trace_tail": self.trace[-12:],
            }
            self._abort_all(parked)
            return
        cur = self.current
        cur_enabled = any(p is cur for p, _ in enabled)
        ordered = sorted(enabled,
                         key=lambda e: (0 if e[0] is cur else 1, e[0].index))
        if self.ci < len(self.choices):
            k = self.choices[self.ci] % len(ordered)
            self.ci += 1
        else:
            # fair fallback: real (non-timeout) operations first, longest
            # waiting first
            fair = sorted(range(len(ordered)),
                          key=lambda i: (ordered[i][1], ordered[i][0].since,
                                         ordered[i][0].index))
            k = fair[0]
        chosen, via_timeout = ordered[k]
        self.branching.append(len(ordered))
        self.taken.append(k)
        self.preemptible.append(cur_enabled)
        if via_timeout:
            self.timeouts_fired += 1
        self.trace.append(f"{chosen.name}:{self._describe(chosen.op)}")
        chosen.granted = chosen.op
        chosen.op = None
        self.current = chosen
        chosen.sem.release()

    def _abort_all(self, parked) -> None:
        for p in self.parts:
            p.abort = True
        for p in parked:
            p.op = None
            p.sem.release()

    @staticmethod
    def _describe(op) -> str:
        if op is None:
            return "-"
        if op[0] == "join":
            return f"join({op[1].name})"
        if len(op) > 1 and hasattr(op[1], "label"):
            return f"{op[0]}({op[1].label},{len(op[1].items)})"
        return op[0]

    # ---- end of scenario -------------------------------------------------
    def drain(self) -> bool:
        """Let the workers run until none is alive.  True = all terminated;
        False = some worker can never terminate (leak) -> deadlock recorded."""
        try:
            self.point(("drain",))
        except SchedAbort:
            return False
        return True

    def context_switches(self) -> int:
        names = [t.split(":")[0] for t in self.trace]
        return sum(1 for a, b in zip(names, names[1:]) if a != b)

    def worker_switches(self) -> int:
        names = [t.split(":")[0] for t in self.trace if t.startswith("w")]
        return sum(1 for a, b in zip(names, names[1:]) if a != b)

    def join_threads(self, timeout: float = 2.0) -> int:
        alive = 0
        for t in self.threads:
            threading.Thread.join(t, timeout)
            if threading.Thread.is_alive(t):
                alive += 1
        return alive


# --------------------------------------------------------------------------
# queue module shim
# --------------------------------------------------------------------------
def make_queue_module(sched: Scheduler):
    counter = {"n": 0}

    class Queue:
        """queue.Queue look-alike whose operations are scheduling points."""

        def __class_getitem__(cls, item):
            return cls

        def __init__(self, maxsize: int = 0):
            self.maxsize = maxsize
            self.items = collections.deque()
            self.label = f"q{counter['n']}"
            counter["n"] += 1

        def put(self, item, block=True, timeout=None):
            sched.point(("put", self, block, timeout))
            if self.maxsize > 0 and len(self.items) >= self.maxsize:
                raise _real_queue.Full
            self.items.append(item)

        def put_nowait(self, item):
            return self.put(item, block=False)

        def get(self, block=True, timeout=None):
            sched.point(("get", self, block, timeout))
            if not self.items:
                raise _real_queue.Empty
            return self.items.popleft()

        def get_nowait(self):
            return self.get(block=False)

        def empty(self):
            sched.point(("empty", self))
            return not self.items

        def full(self):
            sched.point(("full", self))
            return self.maxsize > 0 and len(self.items) >= self.maxsize

        def qsize(self):
            sched.point(("qsize", self))
            return len(self.items)

        def task_done(self):
            raise UnsupportedPrimitive("Queue.task_done")

        def join(self):
            raise UnsupportedPrimitive("Queue.join")

    def unsupported(name):

        def ctor(*a, **k):
            raise UnsupportedPrimitive("queue." + name)

        return ctor

    mod = types.SimpleNamespace(
        Queue=Queue,
        Empty=_real_queue.Empty,
        Full=_real_queue.Full,
        SimpleQueue=unsupported("SimpleQueue"),
        LifoQueue=unsupported("LifoQueue"),
        PriorityQueue=unsupported("PriorityQueue"),
    )
    return mod


def make_threading_module():
    """threading look-alike: Thread passes through, every synchronisation
    primitive is refused (the shim could not see a thread blocked on it)."""
    import threading as real

    def unsupported(name):

        def ctor(*a, **k):
            raise UnsupportedPrimitive("threading." + name)

        return ctor

    ns = types.SimpleNamespace(**{
        k: getattr(real, k) for k in dir(real) if not k.startswith("__")
    })
    for name in ("Lock", "RLock", "Condition", "Event", "Semaphore",
                 "BoundedSemaphore", "Barrier", "Timer"):
        setattr(ns, name, unsupported(name))
    return ns


class Installed:
    """Context manager patching lazy_pool for one case."""

    def __init__(self, sched: Scheduler):
        self.sched = sched

    def __enter__(self):
        from sedpack.io.itertools import lazy_pool
        self.lp = lazy_pool
        self.saved = {
            "queue": lazy_pool.queue,
            "threading": lazy_pool.threading,
            "start": lazy_pool.Collector.start,
            "run": lazy_pool.Collector.run,
        }
        sched = self.sched
        lazy_pool.queue = make_queue_module(sched)
        lazy_pool.threading = make_threading_module()
        orig_start = self.saved["start"]
        orig_run = self.saved["run"]

        def start(thread_self):
            sched.spawn(thread_self, orig_start)

        def run(thread_self):
            try:
                p = sched.thread_begin(thread_self)
            except SchedAbort:
                thread_self._verif_part.alive = False  # pylint: disable=protected-access
                return
            try:
                orig_run(thread_self)
            except SchedAbort:
                pass
            finally:
                sched.thread_end(p)

        def is_alive(thread_self):
            part = getattr(thread_self, "_verif_part", None)
            if part is None:
                return False  # never started
            sched.point(("alive",))
            return part.alive

        def join(thread_self, timeout=None):
            part = getattr(thread_self, "_verif_part", None)
            if part is None:
                raise RuntimeError("cannot join thread before it is started")
            sched.point(("join", part, timeout))

        self.saved["is_alive"] = lazy_pool.Collector.__dict__.get("is_alive")
        self.saved["join"] = lazy_pool.Collector.__dict__.get("join")
        lazy_pool.Collector.start = start
        lazy_pool.Collector.run = run
        lazy_pool.Collector.is_alive = is_alive
        lazy_pool.Collector.join = join
        return self

    def __exit__(self, *exc):
        lp = self.lp
        lp.queue = self.saved["queue"]
        lp.threading = self.saved["threading"]
        lp.Collector.start = self.saved["start"]
        lp.Collector.run = self.saved["run"]
        for name in ("is_alive", "join"):
            if self.saved.get(name) is None:
                try:
                    delattr(lp.Collector, name)
                except AttributeError:
                    pass
            else:
                setattr(lp.Collector, name, self.saved[name])
        return False
