"""Oracles shared by several properties (each property calls only the clauses
it owns, so that a failure is attributed to exactly one property)."""
from __future__ import annotations

import os
from collections import Counter
from pathlib import Path

from vlib import dsops


def node_totals(node: dict) -> tuple[int, int]:
    """(examples, shards) truly below a walked list node, from the per-shard
    recorded counts (which clause 'shard-count' ties to the decoded files)."""
    ex = sum(s["n"] for s in node["shards"])
    sh = len(node["shards"])
    for ch in node["children"]:
        e, s = node_totals(ch["node"])
        ex += e
        sh += s
    return ex, sh


def exactness_walk(root: Path, desc: dict, ctx, handle=None) -> dict:
    """C04: the metadata tree accounts exactly for what is stored."""
    root = Path(root)
    tree = dsops.walk_dataset(root)
    listed: list[str] = []
    decoded_total = 0
    depth_max = 0
    for split, entry in tree["splits"].items():
        top = entry["node"]
        for node in dsops.all_nodes(top):
            list_dir = os.path.dirname(node["rel"])
            depth_max = max(depth_max, node["rel"].count("/"))
            for sh in node["shards"]:
                for f in sh["files"]:
                    listed.append(f)
                    if os.path.dirname(f) != list_dir:
                        ctx.fail("location", ("shard-not-in-list-directory",),
                                 f"{f} listed by {node['rel']}")
                    if not (root / f).is_file():
                        ctx.fail("location", ("listed-file-missing",),
                                 f"{f} listed by {node['rel']}")
                try:
                    real = dsops.count_examples(root / sh["files"][0], desc)
                except Exception as exc:  # pylint: disable=broad-except
                    if not (root / sh["files"][0]).is_file():
                        raise
                    ctx.fail("shard-count", ("listed-shard-undecodable",
                                             type(exc).__name__),
                             f"{sh['files'][0]} records {sh['n']} examples "
                             f"but does not decode: {exc!r}")
                    continue
                decoded_total += real
                if real != sh["n"]:
                    ctx.fail("shard-count", ("shard-count-mismatch",),
                             f"{sh['files'][0]} records {sh['n']}, decodes "
                             f"{real}")
            own = sum(s["n"] for s in node["shards"])
            kids = 0
            for ch in node["children"]:
                crel = ch["summary"]["shard_list_info_file"]["file_path"]
                e, s = node_totals(ch["node"])
                kids += e
                if ch["summary"].get("number_of_examples", 0) != e:
                    ctx.fail(
                        "child-summary", ("child-examples-mismatch",),
                        f"{node['rel']} summarises {crel} with "
                        f"{ch['summary'].get('number_of_examples', 0)} "
                        f"examples, true {e}")
                if ch["summary"].get("number_of_shards", 0) != s:
                    ctx.fail(
                        "child-summary", ("child-shards-mismatch",),
                        f"{node['rel']} summarises {crel} with "
                        f"{ch['summary'].get('number_of_shards', 0)} shards, "
                        f"true {s}")
            if node["doc"].get("number_of_examples", 0) != own + kids:
                ctx.fail(
                    "list-total", ("list-total-mismatch",),
                    f"{node['rel']} number_of_examples="
                    f"{node['doc'].get('number_of_examples', 0)}, own {own} + "
                    f"children {kids}")
        e, s = node_totals(top)
        summ = entry["summary"]
        if summ.get("number_of_examples", 0) != e:
            ctx.fail("split-total", ("split-examples-mismatch",),
                     f"{split}: dataset_info says "
                     f"{summ.get('number_of_examples', 0)}, true {e}")
        if summ.get("number_of_shards", 0) != s:
            ctx.fail("split-total", ("split-shards-mismatch",),
                     f"{split}: dataset_info says "
                     f"{summ.get('number_of_shards', 0)} shards, true {s}")
    dup = [f for f, c in Counter(listed).items() if c > 1]
    if dup:
        ctx.fail("listing", ("shard-listed-twice",), f"{dup}")
    on_disk = dsops.shard_files_on_disk(root, desc["fmt"])
    unlisted = sorted(set(on_disk) - set(listed))
    if unlisted:
        ctx.fail("listing", ("shard-unlisted",), f"{unlisted}")
    if handle is not None:
        from sedpack.io import Dataset
        fresh = Dataset(root)
        if handle._dataset_info != fresh._dataset_info:  # pylint: disable=protected-access
            ctx.fail(
                "in-memory", ("handle-differs-from-disk",),
                f"handle: {handle._dataset_info.splits}\n"  # pylint: disable=protected-access
                f"disk:   {fresh._dataset_info.splits}")  # pylint: disable=protected-access
    return {
        "tree": tree,
        "listed": listed,
        "decoded_total": decoded_total,
        "depth": depth_max
    }


def read_ids_checked(ds, desc: dict, split: str, ctx, clause: str,
                     iface: str = "sync", **opts) -> list[int]:
    """Unshuffled/shuffled full pass; every example must be one that
    ``example_for`` would produce for its id (no torn / mixed example)."""
    opts.setdefault("shuffle", 0)
    out = []
    for ex in dsops.read_all(ds, split, iface, **opts):
        if not dsops.example_matches(desc, ex):
            ctx.fail(clause, ("content-changed", iface),
                     f"{split}: example with id {dsops.ex_id_of(ex)} does not "
                     f"carry the content written for that id: {ex}")
        out.append(dsops.ex_id_of(ex))
    return out


def multiset_diff(got: list, want: list) -> str:
    g, w = Counter(got), Counter(want)
    missing = sorted((w - g).elements())
    extra = sorted((g - w).elements())
    return f"missing={missing[:12]} extra/duplicated={extra[:12]}"


def guarded(ctx, clause: str, signature: tuple, what: str, fn):
    """Run ``fn`` (a legal use of the library).  An exception it raises is a
    failure of the property's clause, not a harness error.  Returns
    (ok, value)."""
    from vlib.core import Inconclusive, Violation
    try:
        return True, fn()
    except (Violation, Inconclusive):
        raise
    except BaseException as exc:  # pylint: disable=broad-except
        if type(exc).__name__ in ("KeyboardInterrupt", "SystemExit",
                                  "SchedAbort"):
            raise
        ctx.fail(clause, tuple(signature) + (type(exc).__name__,),
                 f"{what}: raised {type(exc).__name__}: {str(exc)[:400]}")
        return False, None
