"""Core types: Violation, CaseCtx, Stage, known findings."""
from __future__ import annotations

import dataclasses
import hashlib
import json
from pathlib import Path
from typing import Any, Callable

VERIF = Path(__file__).resolve().parent.parent


class Violation(Exception):
    """The oracle of a property failed on a concrete case."""

    def __init__(self, prop: str, clause: str, signature, details: str = ""):
        super().__init__(prop, clause, tuple(signature), details)
        self.prop = prop
        self.clause = clause
        self.signature = tuple(str(s) for s in signature)
        self.details = details

    def __reduce__(self):
        return (Violation,
                (self.prop, self.clause, self.signature, self.details))

    def __str__(self) -> str:
        return (f"{self.prop} clause={self.clause} "
                f"signature={'|'.join(self.signature)} :: {self.details}")


class Inconclusive(Exception):
    """The case could not be evaluated (too slow, resource problem)."""


# --------------------------------------------------------------------------
# known findings
# --------------------------------------------------------------------------
_FINDINGS: list[dict] | None = None


def findings() -> list[dict]:
    global _FINDINGS
    if _FINDINGS is None:
        path = VERIF / "known_findings.json"
        if path.is_file():
            _FINDINGS = json.loads(path.read_text())["findings"]
        else:
            _FINDINGS = []
    return _FINDINGS


def open_finding_for(prop: str, signature) -> dict | None:
    sig = [str(s) for s in signature]
    for f in findings():
        if (f.get("status") == "open" and f["property"] == prop and
                list(f["signature"]) == sig):
            return f
    return None


def open_findings(prop: str) -> list[dict]:
    return [
        f for f in findings()
        if f.get("status") == "open" and f["property"] == prop
    ]


# --------------------------------------------------------------------------
# per-case context
# --------------------------------------------------------------------------
class CaseCtx:
    """Collects what one executed case contributes to the evidence."""

    def __init__(self, prop: str):
        self.prop = prop
        self.labels: list[str] = []
        self.fingerprints: list[str] = []  # non-trivial fingerprints
        self.known: list[str] = []
        self.counters: dict[str, int] = {}
        self.rejected = False
        self.notes: list[str] = []
        self.sub_evaluations = 0

    # evidence -------------------------------------------------------------
    def label(self, *names: str) -> None:
        self.labels.extend(str(n) for n in names)

    def nontrivial(self, fingerprint: Any) -> None:
        """Declare (a sub-case of) this case non-trivial with a fingerprint."""
        blob = json.dumps(fingerprint, sort_keys=True, default=str)
        self.fingerprints.append(
            hashlib.blake2b(blob.encode(), digest_size=8).hexdigest())

    def evaluated(self, n: int = 1) -> None:
        """One generated case often carries many oracle evaluations (reads of
        one dataset, faults on one dataset, crash states of one session,
        schedules of one configuration): count them as evaluations."""
        self.sub_evaluations += n

    def count(self, name: str, n: int = 1) -> None:
        self.counters[name] = self.counters.get(name, 0) + n

    def reject(self, why: str = "") -> None:
        self.rejected = True
        if why:
            self.label("rejected:" + why)

    # oracle ---------------------------------------------------------------
    def fail(self, clause: str, signature, details: str = "") -> bool:
        """Oracle failure.  Raises Violation unless the signature is an open
        known finding, in which case it is recorded and True is returned (the
        caller should stop evaluating this case: it is excluded)."""
        f = open_finding_for(self.prop, signature)
        if f is not None:
            self.known.append(f["key"])
            return True
        raise Violation(self.prop, clause, signature, details)

    def export(self) -> dict:
        return {
            "labels": self.labels,
            "fingerprints": self.fingerprints,
            "known": self.known,
            "counters": self.counters,
            "rejected": self.rejected,
            "notes": self.notes[:5],
            "sub_evaluations": self.sub_evaluations,
        }


# --------------------------------------------------------------------------
# stages
# --------------------------------------------------------------------------
@dataclasses.dataclass
class Stage:
    """One generated-input search of a property.

    Either ``strategy(tier)`` (Hypothesis) or ``enumerate(tier)`` (a finite
    list of cases, walked completely and sharded over the workers).
    ``run(case, ctx)`` drives the real code and evaluates the oracle.
    """
    name: str
    run: Callable[[Any, CaseCtx], None]
    strategy: Callable[[str], Any] | None = None
    enumerate: Callable[[str], list] | None = None
    examples: dict = dataclasses.field(
        default_factory=lambda: {"quick": 200, "thorough": 2000})
    workers: dict = dataclasses.field(
        default_factory=lambda: {"quick": 16, "thorough": 16})
    fork: bool = False  # run every case in a forked child
    rust: bool = False  # needs the freshly built Rust extension
    tf_in_parent: bool = True  # may the worker itself run TF ops?
    timeout: float = 300.0  # per case, only with fork=True
    exhaustive: bool = False  # enumerate() covers its sub-space completely
    setup: Callable[[str], None] | None = None  # once per worker
    shrink_budget_s: dict = dataclasses.field(
        default_factory=lambda: {"quick": 60.0, "thorough": 240.0})
    stateful_step_count: int | None = None
    # hang is (part of) the property: callable(case) -> (clause, signature,
    # details); a child that does not answer within `timeout` is re-run once
    # with the doubled timeout and only then reported.
    timeout_violation: Callable[[Any], tuple] | None = None


def case_key(case: Any) -> str:
    return hashlib.blake2b(json.dumps(case, sort_keys=True,
                                      default=str).encode(),
                           digest_size=10).hexdigest()


def hang_is_violation(clause: str, what: str):
    """timeout_violation callback for stages in which the property needs a
    RESULT (a pass must deliver, a session must complete): a case that does
    not answer within the watchdog, and again within the doubled watchdog, is
    a violation of that clause."""

    def cb(case):
        import json
        return (clause, ("no-result-hang",),
                f"{what} never returned; case "
                f"{json.dumps(case, default=str)[:1500]}")

    return cb
