"""Write histories: generation (Hypothesis strategies producing JSON op-lists)
and execution against the real sedpack API next to a reference model that only
knows *what was written*.
"""
from __future__ import annotations

from pathlib import Path

import numpy as np

from hypothesis import strategies as st

from vlib import dsops

META_VALUES = [
    {"k": 1},
    {"k": 2},
    {"k": 1, "tag": "x"},
    {"tag": "y"},
    {"tag": "x", "k": 1},  # equal to #2, other key insertion order
    {"k": "1"},  # prints like #0, other value type
]
# nested values (not hashable: never used where custom_metadata_type_limit
# is exercised); the last two are equal with different insertion orders
META_NESTED = [
    {"k": 1, "n": {"a": 1, "b": [1, 2]}},
    {"n": {"b": [1, 2], "a": 1}, "k": 1},
]
# text outside ASCII (one, two, three and four byte UTF-8 sequences): the
# number of characters of the metadata files differs from their byte size
META_TEXT = [
    {"tag": "n\u00e9\u6f22\U0001f600", "k\u00fc": "\u00a0"},
    # two different values whose hashes are equal in CPython
    # (hash(-1) == hash(-2)): equality, not the hash, identifies a value
    {"k": -1},
    {"k": -2},
]
N_SCALAR_META = 2 + len(META_VALUES)  # indices 0..N_SCALAR_META-1
N_ALL_META = N_SCALAR_META + len(META_NESTED)
IDX_META_TEXT = N_ALL_META  # index of META_TEXT[0]
IDX_META_NEG = [N_ALL_META + 1, N_ALL_META + 2]


def meta_of(idx: int):
    """0 -> argument absent, 1 -> {}, >=2 -> a fresh deep copy of one of
    META_VALUES + META_NESTED + META_TEXT (key insertion order preserved)."""
    import copy
    if idx == 0:
        return None
    if idx == 1:
        return {}
    table = META_VALUES + META_NESTED + META_TEXT
    return copy.deepcopy(table[(idx - 2) % len(table)])


# --------------------------------------------------------------------------
# strategies
# --------------------------------------------------------------------------
def st_count(eps_hint: int = 3, min_count: int = 0):
    """Example counts biased to 0, 1 and multiples of the shard size +-1."""
    return st.one_of(
        st.integers(min_count, 2),
        st.integers(min_count, 3 * eps_hint + 1),
        st.sampled_from([
            eps_hint - 1, eps_hint, eps_hint + 1, 2 * eps_hint - 1,
            2 * eps_hint, 2 * eps_hint + 1
        ]).map(lambda x: max(x, min_count)),
    )


def st_runs(eps_hint: int,
            max_runs: int = 4,
            metas: bool = True,
            min_runs: int = 0,
            min_count: int = 0):
    run = st.tuples(
        st.integers(0, 2),
        st_count(eps_hint, min_count),
        (st.sampled_from([0, 0, 0, 1, 2, 3, 4, 4, 5, 6, 6, 7, IDX_META_TEXT] +
                         IDX_META_NEG)
         if metas else st.just(0)),
        # position of an attempted-and-rejected write inside the run
        st.one_of(st.none(), st.none(), st.none(), st.integers(0, 12)),
    ).map(list)
    return st.lists(run, min_size=min_runs, max_size=max_runs)


def st_dir():
    return st.fixed_dictionaries({
        "rel":
            st.sampled_from([
                "root", "root", "new", "new", "reuse", "reuse", "reuse",
                "nested", "nested", "ancestor", "ancestor"
            ]),
        "pick":
            st.integers(0, 5),
    })


# The writer program seeds the global random number generators before a
# session (a script starting with random.seed(0) which is run once per
# session is ordinary use); None = leaves them alone.
ST_RSEED = st.sampled_from([None, None, None, 0, 0, 1])


def st_filler_op(eps_hint: int, metas: bool = True, busy: bool = False):
    return st.fixed_dictionaries({
        "k": st.just("filler"),
        "dir": st_dir(),
        "runs": st_runs(eps_hint, metas=metas, min_runs=int(busy),
                        min_count=int(busy)),
        "reopen": st.booleans(),
        "rseed": ST_RSEED,
    })


def st_multi_op(eps_hint: int,
                single_process=None,
                metas: bool = True,
                busy: bool = False):
    sp = st.booleans() if single_process is None else st.just(single_process)
    few = st.lists(st_runs(eps_hint, max_runs=3, metas=metas,
                           min_runs=int(busy), min_count=int(busy)),
                   min_size=1,
                   max_size=4)
    # two-digit writer counts (position 10 and 11 sort before 2 as text)
    many = st.lists(st_runs(1, max_runs=1, metas=False, min_runs=1,
                            min_count=1),
                    min_size=11,
                    max_size=13)
    return st.fixed_dictionaries({
        "k": st.just("multi"),
        "writers": st.integers(0, 11).flatmap(
            lambda w: many if w == 0 else few),
        "sp": sp,
        "reopen": st.booleans(),
        "rseed": ST_RSEED,
    })


def st_ops(eps_hint: int,
           max_ops: int = 5,
           multi: bool = True,
           create_again: bool = False,
           single_process=None,
           metas: bool = True,
           busy: bool = False,
           min_ops: int = 1):
    """busy=True: every session writes at least one example."""
    kinds = [
        st_filler_op(eps_hint, metas, busy),
        st_filler_op(eps_hint, metas, busy)
    ]
    if multi:
        kinds.append(st_multi_op(eps_hint, single_process, metas, busy))
    if create_again:
        kinds.append(st.just({"k": "create_again"}))
    return st.lists(st.one_of(*kinds), min_size=min_ops, max_size=max_ops)


def st_desc(formats=("fb", "npz"),
            payload: bool = True,
            hashes=None,
            eps=None,
            tfrec_weight: int = 0,
            var_attr: bool = False):
    fmts = list(formats) * 4 + (["tfrec"] * tfrec_weight)

    @st.composite
    def build(draw):
        fmt = draw(st.sampled_from(fmts))
        comp = draw(st.sampled_from(dsops.COMPRESSIONS[fmt]))
        e = draw(eps if eps is not None else st.integers(1, 5))
        if hashes is None:
            h = draw(
                st.lists(st.sampled_from(dsops.HASHES), min_size=0,
                         max_size=3))
        else:
            h = draw(hashes)
        # var_attr: half of the npz / tfrec datasets also declare a
        # variable-size attribute (after the fixed-size ones)
        d = dsops.simple_desc(fmt, comp, e, h, payload=payload,
                              var_attr=var_attr and draw(st.booleans()))
        return d

    return build()


# --------------------------------------------------------------------------
# execution
# --------------------------------------------------------------------------
class SessionFailed(Exception):
    """A writing session raised although all inputs were legal."""

    def __init__(self, op_index: int, op: dict, exc: BaseException):
        super().__init__(f"session #{op_index} {op.get('k')} raised "
                         f"{type(exc).__name__}: {exc}")
        self.op_index = op_index
        self.op = op
        self.exc = exc


class History:
    """Executes op-lists; keeps the reference model."""

    def __init__(self, root: Path, desc: dict):
        self.root = Path(root)
        self.desc = desc
        self.ds = dsops.create_dataset(self.root, desc)
        self.model: dict[str, list] = {s: [] for s in dsops.SPLITS}
        # every write_example CALL in order, incl. rejected attempts
        self.calls: dict[str, list] = {s: [] for s in dsops.SPLITS}
        self.dirs: list[str] = []  # sub-directories already used by fillers
        self.session_no = 0
        self.sessions: list[dict] = []
        self.new_dir_counter = 0
        self.results = None
        self.tainted = False  # an unpublished session happened

    # -- directory resolution (indices keep shrinking meaningful) ----------
    # fresh directory names are deliberately prefix-related ("d" < "d1" <
    # "d10", "e" < "e0"): string-prefix tests on paths must not confuse them
    _NAMES = ["d", "d1", "d10", "d1a", "e", "e0", "d2", "d20"]

    def _fresh(self) -> str:
        k = self.new_dir_counter
        self.new_dir_counter += 1
        base = self._NAMES[k % len(self._NAMES)]
        return base if k < len(self._NAMES) else f"{base}_{k // len(self._NAMES)}"

    def resolve_dir(self, d: dict):
        rel, pick = d["rel"], d["pick"]
        if rel == "root":
            return None, "root"
        if rel == "reuse" and self.dirs:
            return self.dirs[pick % len(self.dirs)], "reuse"
        if rel == "nested" and self.dirs:
            return self.dirs[pick % len(self.dirs)] + "/" + self._fresh(), \
                "nested"
        if rel == "ancestor":
            deep = [x for x in self.dirs if "/" in x]
            if deep:
                return deep[pick % len(deep)].rsplit("/", 1)[0], "ancestor"
        return self._fresh(), "new"

    def reopen(self):
        from sedpack.io import Dataset
        self.ds = Dataset(self.root)

    # -- sessions ----------------------------------------------------------
    def _expand(self, runs: list, writer: int, base_seq: int = 0,
                shared=None):
        """[[split_idx,n,meta_idx]] -> concrete runs + model records."""
        concrete, records = [], []
        seq = base_seq
        for run in runs:
            split_idx, n, meta_idx = run[0], run[1], run[2]
            bad_at = run[3] if len(run) > 3 else None
            split = dsops.SPLITS[split_idx % 3]
            ids = []
            if n == 0 and bad_at is not None:
                # a run that consists of one refused write only
                records.append((split, {
                    "id": None,
                    "session": self.session_no,
                    "writer": writer,
                    "meta": meta_of(meta_idx),
                }))
            for pos in range(n):
                if bad_at is not None and pos == bad_at % max(n, 1):
                    records.append((split, {
                        "id": None,
                        "session": self.session_no,
                        "writer": writer,
                        "meta": meta_of(meta_idx),
                    }))
                ex_id = (self.session_no * 1_000_000 + writer * 10_000 + seq)
                seq += 1
                ids.append(ex_id)
                records.append((split, {
                    "id": ex_id,
                    "session": self.session_no,
                    "writer": writer,
                    "meta": meta_of(meta_idx),
                }))
            value = meta_of(meta_idx)
            if shared is not None and value:
                # the caller re-uses ONE dict object and updates it in place
                # right before the run (see dsops.write_runs)
                concrete.append([split, ids, dsops.SharedMeta(shared, value),
                                 bad_at])
            else:
                concrete.append([split, ids, value, bad_at])
        return concrete, records

    def apply(self, op: dict) -> dict:
        """Run one op against the real code; on success commit to the model.
        Exceptions of sedpack propagate (wrapped in SessionFailed)."""
        kind = op["k"]
        info = {"kind": kind, "session": self.session_no}
        if op.get("reopen"):
            self.reopen()
            info["reopened"] = True
        if op.get("rseed") is not None:
            import random
            random.seed(op["rseed"])
            np.random.seed(op["rseed"])
            info["rseed"] = op["rseed"]
        if kind in ("filler", "aborted"):
            # "aborted": the caller's own code raises inside the with-block
            # after the writes; the filler's exit still runs (the unchanged
            # library publishes what was written)
            subdir, relation = self.resolve_dir(op["dir"])
            info["dir"] = subdir
            info["relation"] = relation
            concrete, records = self._expand(
                op["runs"], 0, shared={} if op.get("shared_meta") else None)
            try:
                dsops.filler_session(self.ds, self.desc, concrete, subdir,
                                     abort=kind == "aborted")
            except BaseException as exc:  # pylint: disable=broad-except
                raise SessionFailed(self.session_no, op, exc) from exc
            if subdir is not None and subdir not in self.dirs and any(
                    r[1] for r in concrete):
                self.dirs.append(subdir)
        elif kind == "unpublished":
            # a filler that never publishes (auto_update_dataset=False and no
            # write_config): what a session killed before its final update
            # leaves behind.  Nothing is committed to the model.
            from sedpack.io.dataset_filler import DatasetFiller
            subdir, relation = self.resolve_dir(op["dir"])
            info["dir"] = subdir
            info["relation"] = "unpublished-" + relation
            concrete, records = self._expand(op["runs"], 0)
            try:
                filler = DatasetFiller(
                    self.ds,
                    relative_path_from_split=Path(subdir or "."),
                    auto_update_dataset=False)
                with filler as ctx_:
                    dsops.write_runs(ctx_, self.desc, concrete)
            except BaseException as exc:  # pylint: disable=broad-except
                raise SessionFailed(self.session_no, op, exc) from exc
            self.tainted = True
            records = []
        elif kind == "multi":
            writers, records = [], []
            for w, runs in enumerate(op["writers"]):
                c, r = self._expand(runs, w)
                writers.append(c)
                records.extend(r)
            info["relation"] = "multi-sp" if op["sp"] else "multi-mp"
            info["writers"] = len(writers)
            try:
                self.results = dsops.multi_session(self.ds, self.desc, writers,
                                                   op["sp"])
            except BaseException as exc:  # pylint: disable=broad-except
                raise SessionFailed(self.session_no, op, exc) from exc
        else:
            raise ValueError(kind)
        for split, rec in records:
            self.calls[split].append(rec)
            if rec["id"] is not None:
                self.model[split].append(rec)
        accepted = [(s, r) for s, r in records if r["id"] is not None]
        info["written"] = len(accepted)
        info["rejected_attempts"] = len(records) - len(accepted)
        info["splits"] = sorted({s for s, _ in accepted})
        self.sessions.append(info)
        self.session_no += 1
        return info

    def fingerprint(self):
        return [(s["kind"], s.get("relation"), tuple(s.get("splits", [])),
                 bool(s.get("reopened")), min(s.get("written", 0), 3))
                for s in self.sessions]
