"""Driving the real sedpack API from JSON case descriptions, plus the
harness-side (independent) ways of looking at a dataset on disk.

Nothing in here decides a property; it only builds datasets, runs sessions,
reads through the five interfaces and walks the files with plain json.
"""
from __future__ import annotations

import asyncio
import json
import os
import shutil
import struct
import time
from pathlib import Path
from typing import Any

import numpy as np

SPLITS = ("train", "test", "holdout")

FB_COMPRESSIONS = ["", "BZ2", "GZIP", "LZMA", "LZ4", "ZLIB", "ZSTD"]
NPZ_COMPRESSIONS = ["", "ZIP"]
TFREC_COMPRESSIONS = ["", "GZIP", "ZLIB"]
RUST_COMPRESSIONS = ["", "LZ4", "GZIP", "ZLIB"]
COMPRESSIONS = {
    "fb": FB_COMPRESSIONS,
    "npz": NPZ_COMPRESSIONS,
    "tfrec": TFREC_COMPRESSIONS
}
HASHES = [
    "md5", "sha1", "sha224", "sha256", "sha384", "sha512", "sha3_224",
    "sha3_256", "sha3_384", "sha3_512", "xxh32", "xxh64", "xxh128"
]
NUMERIC_FB = [
    "int8", "int16", "int32", "int64", "uint8", "uint16", "uint32", "uint64",
    "float16", "float32", "float64"
]
NUMERIC_TFREC = ["int8", "uint8", "int32", "int64", "float16", "float32"]


# --------------------------------------------------------------------------
# descriptions -> sedpack objects
# --------------------------------------------------------------------------
def make_structure(desc: dict):
    from sedpack.io.metadata import Attribute, DatasetStructure
    return DatasetStructure(
        saved_data_description=[
            Attribute(name=a["name"],
                      dtype=a["dtype"],
                      shape=tuple(a["shape"]),
                      **({
                          "custom_metadata": a["custom_metadata"]
                      } if "custom_metadata" in a else {}))
            for a in desc["attrs"]
        ],
        compression=desc.get("compression", ""),
        examples_per_shard=desc.get("eps", 3),
        shard_file_type=desc["fmt"],
        hash_checksum_algorithms=tuple(desc.get("hashes", ["sha256"])),
    )


def create_dataset(root: Path, desc: dict, metadata=None):
    from sedpack.io import Dataset, Metadata
    md = metadata if metadata is not None else Metadata(
        description="verif \u00e9\u6f22")
    return Dataset.create(path=root,
                          metadata=md,
                          dataset_structure=make_structure(desc))


def simple_desc(fmt: str = "fb",
                compression: str = "",
                eps: int = 3,
                hashes=("sha256",),
                payload: bool = True,
                var_attr: bool = False) -> dict:
    attrs = [{"name": "id", "dtype": "int64", "shape": []}]
    if payload:
        attrs.append({"name": "v", "dtype": "float32", "shape": [2, 2]})
        attrs.append({"name": "w", "dtype": "uint8", "shape": [3]})
    if var_attr and fmt in ("npz", "tfrec"):
        # a variable-size attribute (the formats which can store one)
        attrs.append({"name": "b", "dtype": "bytes", "shape": []})
    return {
        "fmt": fmt,
        "compression": compression,
        "eps": eps,
        "hashes": list(hashes),
        "attrs": attrs
    }


# --------------------------------------------------------------------------
# deterministic example content from an id
# --------------------------------------------------------------------------
def value_for(attr: dict, ex_id: int, k: int):
    dtype, shape = attr["dtype"], tuple(attr["shape"])
    if attr["name"] == "id":
        return np.array(ex_id, dtype=dtype)
    if dtype == "bytes":
        return (b"b%d\x00\xff" % ex_id) * (1 + (ex_id + k) % 3) + b"e"
    if dtype == "str":
        return ("s%dé" % ex_id) * (1 + (ex_id + k) % 3)
    size = int(np.prod(shape)) if shape else 1
    base = (np.arange(size, dtype=np.int64) * 7 + ex_id * 13 + k * 5)
    dt = np.dtype(dtype)
    if dt.kind == "f":
        arr = (base % 2039).astype(dt) / dt.type(4)  # exactly representable
    elif dt.kind == "u":
        if dt.itemsize < 8:
            arr = (base % (int(np.iinfo(dt).max) + 1)).astype(dt)
        else:
            arr = base.astype(dt) + dt.type(2**63 + 5)  # beyond int64
    else:
        info = np.iinfo(dt)
        span = int(info.max) - int(info.min) + 1
        arr = ((base % span) + int(info.min)).astype(dt) if span < 2**63 else \
            (base - 2**40).astype(dt)
    return arr.reshape(shape)


def example_for(desc: dict, ex_id: int) -> dict:
    return {
        a["name"]: value_for(a, ex_id, k) for k, a in enumerate(desc["attrs"])
    }


def ex_id_of(example: dict) -> int:
    return int(np.asarray(example["id"]).reshape(-1)[0])


def same_value(attr: dict, got, want) -> bool:
    """Content equality used by history/iteration properties (C01 has its own,
    stricter, bit-level oracle)."""
    if attr["dtype"] == "bytes":
        g = got.item() if isinstance(got, np.ndarray) else got
        if isinstance(g, np.bytes_):
            g = bytes(g)
        return g == want
    if attr["dtype"] == "str":
        g = got.item() if isinstance(got, np.ndarray) else got
        if isinstance(g, bytes):
            return g == want.encode("utf-8")
        return str(g) == want
    g = np.asarray(got)
    w = np.asarray(want)
    if tuple(g.shape) != tuple(w.shape):
        return False
    if g.dtype.kind in "iu" and w.dtype.kind in "iu":
        return bool(np.array_equal(g.astype(object), w.astype(object)))
    return bool(np.array_equal(g, w.astype(g.dtype)))


def example_matches(desc: dict, example: dict) -> bool:
    ex_id = ex_id_of(example)
    want = example_for(desc, ex_id)
    for a in desc["attrs"]:
        if a["name"] not in example:
            return False
        if not same_value(a, example[a["name"]], want[a["name"]]):
            return False
    return True


# --------------------------------------------------------------------------
# writing sessions
# --------------------------------------------------------------------------
ON_WRITE = None  # optional callback(ex_id) right before every write_example


class SharedMeta:
    """custom_metadata passed through ONE caller-owned dict object that is
    updated in place to ``value`` right before the run is written."""

    def __init__(self, obj: dict, value: dict):
        self.obj = obj
        self.value = value

    def apply(self) -> dict:
        import copy
        self.obj.clear()
        self.obj.update(copy.deepcopy(self.value))
        return self.obj


def write_runs(filler_ctx, desc: dict, runs: list, delay_s: float = 0.0) -> None:
    """runs: list of [split, [ids...], metadata-or-None]"""
    for run in runs:
        split, ids, meta = run[0], run[1], run[2]
        bad_at = run[3] if len(run) > 3 else None
        if isinstance(meta, SharedMeta):
            meta = meta.apply()
        if not ids and bad_at is not None:
            # a run that consists of one refused write only
            attempt_rejected_write(filler_ctx, desc, split, meta, bad_at)
        for pos, ex_id in enumerate(ids):
            if bad_at is not None and pos == bad_at % max(len(ids), 1):
                attempt_rejected_write(filler_ctx, desc, split, meta, bad_at)
            if ON_WRITE is not None:
                ON_WRITE(ex_id)
            kwargs = {}
            if meta is not None:
                kwargs["custom_metadata"] = meta
            filler_ctx.write_example(values=example_for(desc, ex_id),
                                     split=split,
                                     **kwargs)
            if delay_s:
                time.sleep(delay_s)


REJECTED = {"n": 0, "accepted": 0}


def attempt_rejected_write(filler_ctx, desc: dict, split: str, meta,
                           which: int = 0) -> None:
    """A write in which one attribute (chosen by `which`) has the wrong shape
    or, where bytes / str is declared, is an array; the caller (we) catches
    the error and carries on, as C18 allows.  If the library accepts it, that
    is C18's finding, not the current property's."""
    values = example_for(desc, 0)
    attr = desc["attrs"][which % len(desc["attrs"])]
    if attr["dtype"] in ("bytes", "str"):
        values[attr["name"]] = np.arange(3, dtype=np.uint8)
    else:
        values[attr["name"]] = np.zeros(tuple(attr["shape"]) + (2,),
                                        dtype=attr["dtype"])
    kwargs = {}
    if meta is not None:
        kwargs["custom_metadata"] = meta
    try:
        filler_ctx.write_example(values=values, split=split, **kwargs)
        REJECTED["accepted"] += 1
    except Exception:  # pylint: disable=broad-except
        REJECTED["n"] += 1


def feed_writer(dataset_filler, spec: dict):
    """feed_writer for Dataset.write_multiprocessing (module level: picklable).
    """
    with dataset_filler as ctx:
        write_runs(ctx, spec["desc"], spec["runs"], spec.get("delay_s", 0.0))
    return {"writer": spec["writer"], "n": sum(len(r[1]) for r in spec["runs"])}


class UserAbort(Exception):
    """Raised by the caller's own code inside the filler's with-block."""


def filler_session(dataset, desc: dict, runs: list, subdir: str | None = None,
                   abort: bool = False):
    """abort=True: after the writes the with-body raises an exception of the
    caller (which the caller handles outside)."""
    from sedpack.io.dataset_filler import DatasetFiller
    if subdir is None:
        filler = dataset.filler()
    else:
        filler = DatasetFiller(dataset, relative_path_from_split=Path(subdir))
    try:
        with filler as ctx:
            write_runs(ctx, desc, runs)
            if abort:
                raise UserAbort("the caller's code failed")
    except UserAbort:
        if not abort:
            raise


def multi_session(dataset,
                  desc: dict,
                  writers: list,
                  single_process: bool,
                  delay_s: float = 0.0,
                  consistency_check: bool = True):
    specs = [{
        "desc": desc,
        "runs": runs,
        "writer": w,
        "delay_s": delay_s
    } for w, runs in enumerate(writers)]
    return dataset.write_multiprocessing(
        feed_writer=feed_writer,
        custom_arguments=[(s,) for s in specs],
        consistency_check=consistency_check,
        single_process=single_process,
    )


# --------------------------------------------------------------------------
# reading through the five interfaces
# --------------------------------------------------------------------------
INTERFACES = ("sync", "concurrent", "async", "rust", "tfdata")


def interface_applicable(iface: str, desc: dict) -> bool:
    fmt = desc["fmt"]
    if iface == "async":
        return fmt in ("fb", "npz")
    if iface == "rust":
        return fmt == "fb" and desc.get("compression", "") in RUST_COMPRESSIONS
    if iface == "tfdata":
        if fmt != "tfrec":
            # from_generator needs a TensorSpec per attribute
            return all(a["dtype"] not in ("bytes", "str") for a in desc["attrs"])
        return True
    return True


def iface_accepts(iface: str, option: str) -> bool:
    if option == "custom_metadata_type_limit":
        return iface in ("sync", "concurrent", "tfdata")
    if option == "file_parallelism":
        return iface in ("concurrent", "async", "rust", "tfdata")
    return True


def open_iter(ds, split: str, iface: str, **opts):
    """Return a plain Python iterator over examples for any interface."""
    opts = {k: v for k, v in opts.items() if v is not None}
    if iface == "sync":
        opts.pop("file_parallelism", None)
        return iter(ds.as_numpy_iterator(split=split, **opts))
    if iface == "concurrent":
        return iter(ds.as_numpy_iterator_concurrent(split=split, **opts))
    if iface == "rust":
        return iter(ds.as_numpy_iterator_rust(split=split, **opts))
    if iface == "tfdata":
        opts.setdefault("batch_size", 0)
        tfds = ds.as_tfdataset(split, **opts)
        if opts["batch_size"] > 0:
            return _unbatch(iter(tfds.as_numpy_iterator()))
        return iter(tfds.as_numpy_iterator())
    if iface == "async":
        return _AsyncBridge(ds.as_numpy_iterator_async(split=split, **opts))
    raise ValueError(iface)


def _unbatch(batches):
    """Flatten batched tf.data elements (dict of arrays with a leading batch
    axis) back into single examples, in order."""
    for batch in batches:
        keys = list(batch)
        n = len(batch[keys[0]])
        for i in range(n):
            yield {k: batch[k][i] for k in keys}


class _AsyncBridge:
    """Synchronous façade over an async generator (own event loop)."""

    # seconds the event loop keeps running after every element (a consumer
    # that awaits other things between two elements lets background tasks of
    # the producer run ahead); set by checks that measure read-ahead
    idle_s = 0.0

    def __init__(self, agen):
        self._loop = asyncio.new_event_loop()
        self._agen = agen

    def __iter__(self):
        return self

    def __next__(self):
        try:
            item = self._loop.run_until_complete(self._agen.__anext__())
            if self.idle_s:
                self._loop.run_until_complete(asyncio.sleep(self.idle_s))
            return item
        except StopAsyncIteration:
            self.close()
            raise StopIteration from None

    def close(self):
        if self._loop is not None and not self._loop.is_closed():
            try:
                self._loop.run_until_complete(self._agen.aclose())
            finally:
                self._loop.close()


def tfdata_object(ds, split: str, **opts):
    """The tf.data.Dataset object itself (to iterate it more than once)."""
    opts = {k: v for k, v in opts.items() if v is not None}
    opts.setdefault("batch_size", 0)
    return ds.as_tfdataset(split, **opts), opts["batch_size"]


def iterate_tfdata_object(tfds, batch_size: int, n=None) -> list:
    it = iter(tfds.as_numpy_iterator())
    if batch_size > 0:
        it = _unbatch(it)
    out = []
    for ex in it:
        out.append(ex)
        if n is not None and len(out) >= n:
            break
    return out


def read_all(ds, split: str, iface: str, **opts) -> list:
    opts.setdefault("repeat", False)
    it = open_iter(ds, split, iface, **opts)
    return list(it)


def read_prefix(ds, split: str, iface: str, n: int, **opts) -> list:
    it = open_iter(ds, split, iface, **opts)
    out = []
    try:
        for _ in range(n):
            try:
                out.append(next(it))
            except StopIteration:
                break
    finally:
        close = getattr(it, "close", None)
        if close:
            close()
    return out


# --------------------------------------------------------------------------
# independent view of the files on disk
# --------------------------------------------------------------------------
def load_json(path: Path):
    with open(path, "r", encoding="utf-8") as f:
        return json.load(f)


def walk_split(root: Path, list_rel: str) -> dict:
    """Plain-json walk of one shard-list file and, recursively, its children.
    Returns {'rel','doc','shards':[...own...],'children':[{'summary','node'}]}
    """
    doc = load_json(root / list_rel)
    node = {"rel": list_rel, "doc": doc, "shards": [], "children": []}
    for sf in doc.get("shard_files", []):
        node["shards"].append({
            "files": [fi["file_path"] for fi in sf["file_infos"]],
            "checksums": [
                list(fi.get("hash_checksums", [])) for fi in sf["file_infos"]
            ],
            "n": sf.get("number_of_examples", 0),
            "meta": sf.get("custom_metadata", {}),
        })
    for ch in doc.get("children_shard_lists", []):
        rel = ch["shard_list_info_file"]["file_path"]
        node["children"].append({
            "summary": ch,
            "node": walk_split(root, rel)
        })
    return node


def walk_dataset(root: Path) -> dict:
    info = load_json(root / "dataset_info.json")
    out = {"info": info, "splits": {}}
    for split, sli in info.get("splits", {}).items():
        out["splits"][split] = {
            "summary": sli,
            "node": walk_split(root, sli["shard_list_info_file"]["file_path"])
        }
    return out


def shards_in_order(node: dict) -> list:
    """Own shards first, then children depth-first (the documented order)."""
    out = list(node["shards"])
    for ch in node["children"]:
        out.extend(shards_in_order(ch["node"]))
    return out


def all_nodes(node: dict) -> list:
    out = [node]
    for ch in node["children"]:
        out.extend(all_nodes(ch["node"]))
    return out


def shard_files_on_disk(root: Path, fmt: str) -> list:
    return sorted(
        str(p.relative_to(root)) for p in root.rglob(f"*.{fmt}") if p.is_file())


# --- FlatBuffers walker written against shard.fbs (no sedpack decode code) --
def _u16(b, o):
    return struct.unpack_from("<H", b, o)[0]


def _u32(b, o):
    return struct.unpack_from("<I", b, o)[0]


def _i32(b, o):
    return struct.unpack_from("<i", b, o)[0]


def _field(b, tpos: int, idx: int) -> int:
    vt = tpos - _i32(b, tpos)
    vtsize = _u16(b, vt)
    slot = 4 + 2 * idx
    if slot >= vtsize:
        return 0
    fo = _u16(b, vt + slot)
    return tpos + fo if fo else 0


def _vector(b, fpos: int):
    p = fpos + _u32(b, fpos)
    return p + 4, _u32(b, p)


def fb_walk(buf: bytes) -> list:
    """[[attribute bytes, ...] per example] of a decompressed fb shard."""
    out = []
    root = _u32(buf, 0)
    f = _field(buf, root, 0)
    if not f:
        return out
    ex0, n_ex = _vector(buf, f)
    for i in range(n_ex):
        epos = ex0 + 4 * i
        etab = epos + _u32(buf, epos)
        attrs = []
        fa = _field(buf, etab, 0)
        if fa:
            a0, n_a = _vector(buf, fa)
            for j in range(n_a):
                apos = a0 + 4 * j
                atab = apos + _u32(buf, apos)
                fb_ = _field(buf, atab, 0)
                if fb_:
                    d0, n_b = _vector(buf, fb_)
                    attrs.append(bytes(buf[d0:d0 + n_b]))
                else:
                    attrs.append(b"")
        out.append(attrs)
    return out


def decompress(data: bytes, compression: str) -> bytes:
    """Stdlib / codec-library decompression chosen by the *name* in the
    description (independent of sedpack.io.compress)."""
    import bz2
    import gzip
    import lzma
    if compression == "":
        return data
    if compression in ("GZIP", "ZLIB"):
        return gzip.decompress(data)
    if compression == "BZ2":
        return bz2.decompress(data)
    if compression == "LZMA":
        return lzma.decompress(data)
    if compression == "LZ4":
        import lz4.frame
        return lz4.frame.decompress(data)
    if compression == "ZSTD":
        import zstandard
        return zstandard.decompress(data)
    raise ValueError(compression)


def decode_fb_independent(path: Path, desc: dict) -> list:
    raw = decompress(Path(path).read_bytes(), desc.get("compression", ""))
    out = []
    for attrs in fb_walk(raw):
        ex = {}
        for a, blob in zip(desc["attrs"], attrs):
            dt = np.dtype(a["dtype"]).newbyteorder("<")
            ex[a["name"]] = np.frombuffer(blob, dtype=dt).reshape(
                tuple(a["shape"])).astype(np.dtype(a["dtype"]))
        out.append(ex)
    return out


def decode_shard(path: Path, desc: dict) -> list:
    """Decode one shard file on its own with the lowest-level reader (fb: the
    harness' own walker)."""
    fmt = desc["fmt"]
    if fmt == "fb":
        return decode_fb_independent(path, desc)
    structure = make_structure(desc)
    if fmt == "npz":
        from sedpack.io.npz import IterateShardNP
        return list(IterateShardNP(structure, None).iterate_shard(Path(path)))
    from sedpack.io.tfrec import IterateShardTFRec
    return list(
        IterateShardTFRec(structure, None,
                          num_parallel_calls=1).iterate_shard(Path(path)))


def count_examples(path: Path, desc: dict) -> int:
    fmt = desc["fmt"]
    if fmt == "fb":
        raw = decompress(Path(path).read_bytes(), desc.get("compression", ""))
        root = _u32(raw, 0)
        f = _field(raw, root, 0)
        return _vector(raw, f)[1] if f else 0
    return len(decode_shard(path, desc))


def tree_digest(root: Path) -> dict:
    """{relative path: sha256} of every file below root."""
    import hashlib
    out = {}
    for p in sorted(root.rglob("*")):
        if p.is_file():
            out[str(p.relative_to(root))] = hashlib.sha256(
                p.read_bytes()).hexdigest()
    return out


def rmtree(path) -> None:
    shutil.rmtree(path, ignore_errors=True)
