"""Environment bootstrap shared by every check.

* builds the Rust extension from /repo/rust (current working tree) into
  /verif/.build/ext and loads it as ``sedpack._sedpack_rs`` *before*
  ``sedpack.io`` is imported, so the Rust reader under test is never the stale
  artefact lying in /repo/src/sedpack;
* asserts that ``sedpack`` is imported from /repo/src;
* silences TensorFlow / tqdm noise.
"""
from __future__ import annotations

import importlib.machinery
import importlib.util
import os
import subprocess
import sys
from pathlib import Path

VERIF = Path(__file__).resolve().parent.parent
REPO = Path(os.environ.get("VERIF_REPO", "/repo"))
BUILD = VERIF / ".build"
def _default_work() -> str:
    shm = Path("/dev/shm")
    if shm.is_dir() and os.access(shm, os.W_OK):
        return str(shm / "sedpack-verif-work")
    return str(VERIF / ".work")


WORK = Path(os.environ.get("VERIF_WORK") or _default_work())


class HarnessError(Exception):
    """Something is wrong with the machinery (never a property violation)."""


def cargo_env(target: Path) -> dict:
    env = dict(os.environ)
    env["CARGO_TARGET_DIR"] = str(target)
    env["CARGO_NET_OFFLINE"] = "true"
    env["PYO3_PYTHON"] = "/venv/bin/python"
    return env


def _target_name(base: str) -> str:
    """Own cargo target directory per tree (VERIF_REPO sensitivity runs)."""
    if str(REPO) == "/repo":
        return base
    import hashlib
    return base + "-" + hashlib.sha1(str(REPO).encode()).hexdigest()[:8]


def build_rust_ext(quiet: bool = True) -> Path:
    """(Re)build the extension from the working tree; returns the .so path."""
    target = BUILD / _target_name("ext")
    target.mkdir(parents=True, exist_ok=True)
    cmd = [
        "cargo", "build", "--release", "--offline", "--features",
        "pyo3/extension-module", "--manifest-path",
        str(REPO / "rust" / "Cargo.toml")
    ]
    res = subprocess.run(cmd,
                         env=cargo_env(target),
                         capture_output=True,
                         text=True,
                         check=False)
    if res.returncode != 0:
        raise HarnessError("cargo build of /repo/rust failed:\n" +
                           res.stderr[-4000:])
    so = target / "release" / "libsedpack_rs.so"
    if not so.is_file():
        raise HarnessError(f"{so} missing after cargo build")
    return so


def build_rust_harness() -> Path:
    """Build the parallel_map driver (links /repo/rust as an rlib)."""
    target = BUILD / _target_name("h")
    target.mkdir(parents=True, exist_ok=True)
    crate = VERIF / "rust_harness"
    if str(REPO) != "/repo":
        # link the tree under test, not /repo
        import shutil
        alt = BUILD / _target_name("hsrc")
        shutil.rmtree(alt, ignore_errors=True)
        shutil.copytree(crate, alt)
        toml = (alt / "Cargo.toml").read_text().replace(
            'path = "/repo/rust"', f'path = "{REPO}/rust"')
        (alt / "Cargo.toml").write_text(toml)
        crate = alt
    res = subprocess.run(
        ["cargo", "build", "--release", "--offline", "--manifest-path",
         str(crate / "Cargo.toml")],
        env=cargo_env(target),
        capture_output=True,
        text=True,
        check=False)
    if res.returncode != 0:
        raise HarnessError("cargo build of rust_harness failed:\n" +
                           res.stderr[-4000:])
    exe = target / "release" / "pmap_driver"
    if not exe.is_file():
        raise HarnessError(f"{exe} missing after cargo build")
    return exe


_loaded = False


def load_sedpack(rust: bool = False, so_path: str | None = None):
    """Import sedpack (optionally with a freshly built Rust extension)."""
    global _loaded
    os.environ.setdefault("TF_CPP_MIN_LOG_LEVEL", "3")
    os.environ.setdefault("TQDM_DISABLE", "1")
    os.environ.setdefault("CUDA_VISIBLE_DEVICES", "")
    if _loaded:
        import sedpack.io  # noqa
        return sys.modules["sedpack"]
    src = str(REPO / "src")
    if src not in sys.path:
        sys.path.insert(0, src)
    import sedpack  # package __init__ is tiny
    if not str(Path(sedpack.__file__).resolve()).startswith(str(REPO / "src")):
        raise HarnessError(f"sedpack imported from {sedpack.__file__}, "
                           f"expected {REPO}/src")
    if rust:
        so = so_path or os.environ.get("VERIF_RUST_SO")
        if not so:
            so = str(build_rust_ext())
        loader = importlib.machinery.ExtensionFileLoader(
            "sedpack._sedpack_rs", so)
        spec = importlib.util.spec_from_loader("sedpack._sedpack_rs", loader)
        mod = importlib.util.module_from_spec(spec)
        loader.exec_module(mod)
        sys.modules["sedpack._sedpack_rs"] = mod
        sedpack._sedpack_rs = mod
    import logging
    logging.getLogger("tensorflow").setLevel(logging.ERROR)
    logging.getLogger("sedpack.io.Dataset").setLevel(logging.ERROR)
    import sedpack.io  # noqa  (pulls TensorFlow, ~3 s)
    if rust:
        # the reader under test must be the one we just built
        from sedpack.io import dataset_iteration
        if dataset_iteration._sedpack_rs is not sys.modules[
                "sedpack._sedpack_rs"]:
            raise HarnessError("stale _sedpack_rs bound in dataset_iteration")
    _loaded = True
    return sedpack


def scratch_dir(prefix: str) -> Path:
    import tempfile
    WORK.mkdir(parents=True, exist_ok=True)
    return Path(tempfile.mkdtemp(prefix=prefix + "-", dir=str(WORK)))
