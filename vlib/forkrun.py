"""Run one case in a forked child and get a picklable result back."""
from __future__ import annotations

import os
import pickle
import select
import signal
import struct
import sys
import time
import traceback


class ChildTimeout(Exception):
    """The child did not answer in time (it has been killed)."""


class ChildDied(Exception):
    """The child terminated without sending an answer."""

    def __init__(self, status: int, stderr_tail: str = ""):
        super().__init__(f"child died, wait status {status}")
        self.status = status


def _read_exact(fd: int, n: int, deadline: float | None) -> bytes | None:
    chunks = []
    got = 0
    while got < n:
        if deadline is not None:
            left = deadline - time.monotonic()
            if left <= 0:
                return None
            r, _, _ = select.select([fd], [], [], left)
            if not r:
                return None
        b = os.read(fd, min(1 << 20, n - got))
        if not b:
            return b""  # EOF
        chunks.append(b)
        got += len(b)
    return b"".join(chunks)


def run_in_child(fn, arg, timeout: float | None = 120.0):
    """fork, run ``fn(arg)`` in the child, return its value.

    Exceptions raised by ``fn`` are re-raised in the parent (they must be
    picklable; otherwise a RuntimeError with the traceback text is raised).
    ChildTimeout / ChildDied tell the caller about hangs and crashes; what they
    mean is the caller's decision.
    """
    rfd, wfd = os.pipe()
    sys.stdout.flush()
    sys.stderr.flush()
    pid = os.fork()
    if pid == 0:
        # ---- child
        code = 0
        try:
            os.close(rfd)
            os.setpgid(0, 0)
            try:
                payload = ("ok", fn(arg))
            except BaseException as exc:  # pylint: disable=broad-except
                tb = traceback.format_exc()
                try:
                    pickle.dumps(exc)
                    payload = ("exc", exc, tb)
                except Exception:  # pylint: disable=broad-except
                    payload = ("excstr", repr(exc), tb)
            data = pickle.dumps(payload)
            with os.fdopen(wfd, "wb") as w:
                w.write(struct.pack("<Q", len(data)))
                w.write(data)
        except BaseException:  # pylint: disable=broad-except
            code = 3
        finally:
            try:
                sys.stdout.flush()
                sys.stderr.flush()
            except Exception:  # pylint: disable=broad-except
                pass
            os._exit(code)
    # ---- parent
    os.close(wfd)
    deadline = None if timeout is None else time.monotonic() + timeout
    try:
        head = _read_exact(rfd, 8, deadline)
        if head is None:
            _kill(pid)
            raise ChildTimeout(f"no answer within {timeout} s")
        if head == b"" or len(head) < 8:
            _, status = os.waitpid(pid, 0)
            pid = 0
            raise ChildDied(status)
        (n,) = struct.unpack("<Q", head)
        body = _read_exact(rfd, n, deadline)
        if body is None:
            _kill(pid)
            raise ChildTimeout(f"no complete answer within {timeout} s")
        if len(body) < n:
            _, status = os.waitpid(pid, 0)
            pid = 0
            raise ChildDied(status)
    finally:
        os.close(rfd)
        if pid:
            _reap(pid)
    payload = pickle.loads(body)
    if payload[0] == "ok":
        return payload[1]
    if payload[0] == "exc":
        exc = payload[1]
        exc.child_traceback = payload[2]
        raise exc
    raise RuntimeError(f"child raised unpicklable {payload[1]}\n{payload[2]}")


def _kill(pid: int) -> None:
    for target in (-pid, pid):
        try:
            os.kill(target, signal.SIGKILL)
        except (ProcessLookupError, PermissionError):
            pass


def _reap(pid: int) -> None:
    # the child may keep running non-daemon threads after sending its answer
    # only until os._exit, which is immediate; still, never wait forever.
    end = time.monotonic() + 10
    while time.monotonic() < end:
        try:
            got, _ = os.waitpid(pid, os.WNOHANG)
        except ChildProcessError:
            return
        if got:
            return
        time.sleep(0.002)
    _kill(pid)
    try:
        os.waitpid(pid, 0)
    except ChildProcessError:
        pass
