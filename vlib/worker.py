"""One worker process of a check: runs a share of one stage (or the replays).

usage: python -m vlib.worker <module> <stage|@replay> <tier> <seed> <widx>
                             <nworkers> <examples> <out.json> [replay files..]
"""
from __future__ import annotations

import importlib
import json
import os
import sys
import time
import traceback
from collections import Counter

from vlib import core
from vlib.core import CaseCtx, Violation, Inconclusive, case_key


class Stats:

    def __init__(self):
        self.evaluations = 0
        self.cases = 0
        self.labels = Counter()
        self.fps = set()
        self.known = Counter()
        self.counters = Counter()
        self.rejected = 0
        self.inconclusive = 0
        self.samples = []
        self.biggest = None
        self.last = None
        self.violations = []
        self.errors = []
        self.notes = []

    def absorb(self, case, exp: dict) -> None:
        # a case counts once, or once per oracle evaluation it carried
        self.evaluations += max(1, exp.get("sub_evaluations", 0))
        self.cases += 1
        self.labels.update(exp["labels"])
        self.fps.update(exp["fingerprints"])
        self.known.update(exp["known"])
        self.counters.update(exp["counters"])
        self.rejected += 1 if exp["rejected"] else 0
        for n in exp.get("notes", []):
            if len(self.notes) < 10:
                self.notes.append(n)
        blob = json.dumps(case, default=str)
        if len(self.samples) < 2 and exp["fingerprints"]:
            self.samples.append(case)
        if exp["fingerprints"]:
            if self.biggest is None or len(blob) > self.biggest[0]:
                if len(blob) < 6000:
                    self.biggest = (len(blob), case)
            self.last = case

    def export(self) -> dict:
        samples = list(self.samples)
        for extra in (self.biggest[1] if self.biggest else None, self.last):
            if extra is not None and extra not in samples:
                samples.append(extra)
        return {
            "evaluations": self.evaluations,
            "cases": self.cases,
            "labels": dict(self.labels),
            "fingerprints": sorted(self.fps),
            "known": dict(self.known),
            "counters": dict(self.counters),
            "rejected": self.rejected,
            "inconclusive": self.inconclusive,
            "samples": samples,
            "violations": self.violations,
            "errors": self.errors,
            "notes": self.notes,
        }


def _child_run(args):
    stage, prop, case = args
    # Hypothesis raises the interpreter's recursion limit while a test runs;
    # the code under test gets what a user's script has: the default limit
    # (1000 frames) on top of the frames of the harness.
    import sys
    depth, frame = 0, sys._getframe()  # pylint: disable=protected-access
    while frame is not None:
        depth, frame = depth + 1, frame.f_back
    sys.setrecursionlimit(1000 + depth)
    ctx = CaseCtx(prop)
    stage.run(case, ctx)
    return ctx.export()


def execute(stage, prop: str, case, stats: Stats) -> None:
    """Run one case; raises Violation; counts everything else."""
    if stage.fork:
        from vlib import forkrun
        try:
            try:
                exp = forkrun.run_in_child(_child_run, (stage, prop, case),
                                           timeout=stage.timeout)
            except forkrun.ChildDied as died:
                # a forked child of a TensorFlow-laden process very rarely dies
                # from a signal for reasons of its own (about 1 in 10^4 cases):
                # run the case again; only a reproducible death is reported
                stats.labels["child-died-once:status=%d" % died.status] += 1
                try:
                    exp = forkrun.run_in_child(_child_run,
                                               (stage, prop, case),
                                               timeout=stage.timeout)
                except forkrun.ChildDied as again:
                    if stage.timeout_violation is None:
                        raise
                    clause, signature, details = stage.timeout_violation(case)
                    raise Violation(
                        prop, clause, ("process-died",),
                        f"the process running this case died twice (wait "
                        f"status {died.status}, {again.status}): {details}"
                    ) from None
        except forkrun.ChildTimeout:
            if stage.timeout_violation is None:
                stats.inconclusive += 1
                stats.labels["inconclusive:timeout"] += 1
                return
            try:
                exp = forkrun.run_in_child(_child_run, (stage, prop, case),
                                           timeout=2 * stage.timeout)
            except forkrun.ChildTimeout:
                clause, signature, details = stage.timeout_violation(case)
                known = core.open_finding_for(prop, signature)
                if known is not None:
                    stats.known[known["key"]] += 1
                    stats.evaluations += 1
                    return
                v = Violation(
                    prop, clause, signature,
                    f"no answer within {stage.timeout:.0f} s and again within "
                    f"{2 * stage.timeout:.0f} s: {details}")
                v.hang = True
                raise v from None
    else:
        ctx = CaseCtx(prop)
        try:
            stage.run(case, ctx)
        except Inconclusive:
            stats.inconclusive += 1
            stats.labels["inconclusive"] += 1
            return
        exp = ctx.export()
    stats.absorb(case, exp)


def save_violation(prop: str, stage_name: str, case, v: Violation) -> str:
    d = core.VERIF / "violations" / prop
    d.mkdir(parents=True, exist_ok=True)
    path = d / f"{stage_name}-{case_key(case)}.json"
    path.write_text(
        json.dumps(
            {
                "property": prop,
                "stage": stage_name,
                "clause": v.clause,
                "signature": list(v.signature),
                "details": v.details[:4000],
                "case": case,
            },
            indent=1,
            default=str))
    return str(path)


def _is_hang(v) -> bool:
    """A violation which was established by waiting for a watchdog (twice)."""
    return bool(getattr(v, "hang", False) or
                (v.signature and str(v.signature[0]).startswith("hang")))


def run_hypothesis(mod, stage, tier, seed, n_examples, stats: Stats) -> None:
    import hypothesis
    from hypothesis import HealthCheck, Phase, given, settings
    prop = mod.ID
    failed: dict[str, Violation] = {}
    state = {"first_fail_t": None, "last_case": None, "hang": False}
    budget = stage.shrink_budget_s[tier]

    def body(case):
        key = case_key(case)
        if key in failed and _is_hang(failed[key]):
            # a hang which was already confirmed twice: do not wait for it a
            # third time when Hypothesis replays its final example
            raise failed[key]
        if state["first_fail_t"] is not None:
            # shrinking: stop spending time once the budget is used up, but
            # keep every case that really failed failing.  A hang costs three
            # watchdog periods per attempt and is not shrunk at all.
            if ((state["hang"] or
                 time.monotonic() - state["first_fail_t"] > budget) and
                    key not in failed):
                return
        try:
            execute(stage, prop, case, stats)
        except Violation as v:
            failed[key] = v
            state["last_case"] = case
            if _is_hang(v):
                state["hang"] = True
            if state["first_fail_t"] is None:
                state["first_fail_t"] = time.monotonic()
            raise

    phases = [Phase.generate, Phase.shrink]
    # Hypothesis always starts with the minimal example: give every worker
    # one extra so that a share of 1 is not spent on it alone.
    st = settings(max_examples=n_examples + 1,
                  database=None,
                  deadline=None,
                  derandomize=False,
                  report_multiple_bugs=False,
                  suppress_health_check=list(HealthCheck),
                  phases=phases,
                  print_blob=False)
    test = hypothesis.seed(seed)(st(given(stage.strategy(tier))(body)))
    try:
        test()
    except Violation as v:
        case = state["last_case"]
        path = save_violation(prop, stage.name, case, v)
        stats.violations.append({
            "clause": v.clause,
            "signature": list(v.signature),
            "details": v.details[:2000],
            "replay": path
        })
    except hypothesis.errors.Flaky:
        # a case failed for real at least once: report the recorded failure
        if failed and state["last_case"] is not None:
            case = state["last_case"]
            v = failed[case_key(case)]
            path = save_violation(prop, stage.name, case, v)
            stats.violations.append({
                "clause": v.clause,
                "signature": list(v.signature),
                "details": "(flaky under re-execution) " + v.details[:2000],
                "replay": path
            })
        else:
            raise


def run_enumeration(mod, stage, tier, widx, nw, stats: Stats) -> None:
    prop = mod.ID
    cases = stage.enumerate(tier)
    seen_sigs = set()
    for case in cases[widx::nw]:
        try:
            execute(stage, prop, case, stats)
        except Violation as v:
            if v.signature in seen_sigs:
                continue
            seen_sigs.add(v.signature)
            path = save_violation(prop, stage.name, case, v)
            stats.violations.append({
                "clause": v.clause,
                "signature": list(v.signature),
                "details": v.details[:2000],
                "replay": path
            })
            if len(stats.violations) >= 3:
                break
            if _is_hang(v):
                # every further hanging cell costs three watchdog periods
                stats.notes.append(
                    f"{stage.name}: enumeration stopped after a hang "
                    f"({len(cases[widx::nw])} cells in this share)")
                break


def run_replays(mod, files, stats: Stats) -> None:
    prop = mod.ID
    stages = {s.name: s for s in mod.STAGES}
    for f in files:
        doc = json.loads(open(f).read())
        stage = stages.get(doc.get("stage") or mod.STAGES[0].name)
        if stage is None:
            stats.errors.append(f"replay {f}: unknown stage {doc.get('stage')}")
            continue
        try:
            before = dict(stats.known)
            execute(stage, prop, doc["case"], stats)
            stats.labels["replayed"] += 1
            hit = [k for k in stats.known if stats.known[k] > before.get(k, 0)]
            for k in hit:
                stats.labels["replay-confirms-known:" + k] += 1
        except Violation as v:
            stats.violations.append({
                "clause": v.clause,
                "signature": list(v.signature),
                "details": v.details[:2000],
                "replay": str(f)
            })


def main(argv) -> int:
    (modname, stage_name, tier, seed, widx, nw, n_examples, out) = argv[:8]
    files = argv[8:]
    seed, widx, nw, n_examples = int(seed), int(widx), int(nw), int(n_examples)
    stats = Stats()
    t0 = time.monotonic()
    rc = 0
    try:
        mod = importlib.import_module(modname)
        stages = {s.name: s for s in mod.STAGES}
        needs_rust = any(s.rust for s in mod.STAGES) if stage_name == "@replay" \
            else stages[stage_name].rust
        from vlib import env
        if getattr(mod, "NEEDS_SEDPACK", True):
            env.load_sedpack(rust=needs_rust)
        if stage_name == "@replay":
            for s in mod.STAGES:
                if s.setup:
                    s.setup(tier)
            run_replays(mod, files, stats)
        else:
            stage = stages[stage_name]
            if stage.setup:
                stage.setup(tier)
            if stage.enumerate is not None:
                run_enumeration(mod, stage, tier, widx, nw, stats)
            else:
                run_hypothesis(mod, stage, tier, seed * 1000 + widx + 1,
                               n_examples, stats)
    except BaseException:  # pylint: disable=broad-except
        stats.errors.append(traceback.format_exc()[-6000:])
        rc = 2
    res = stats.export()
    res["wall_s"] = time.monotonic() - t0
    res["stage"] = stage_name
    with open(out, "w") as f:
        json.dump(res, f, default=str)
    sys.stdout.flush()
    sys.stderr.flush()
    # TensorFlow / stray threads must not keep the worker alive
    os._exit(rc)


if __name__ == "__main__":
    main(sys.argv[1:])
