"""./check <ID> [--tier quick|thorough] [--replay file] [--examples-scale f]

Orchestrates the worker processes of one property check, aggregates their
counters into evidence/<ID>.json and prints the VIOLATION / KNOWN-FINDING
lines.  Exit 0: held on everything explored; 1: violation; 2: harness error.
"""
from __future__ import annotations

import argparse
import glob
import importlib
import json
import os
import subprocess
import sys
import tempfile
import time
from collections import Counter
from pathlib import Path

from vlib import core

VERIF = core.VERIF

MODULES = {
    "C01": "props.c01_roundtrip",
    "C02": "props.c02_exactly_once",
    "C03": "props.c03_order",
    "C04": "props.c04_metadata_exact",
    "C05": "props.c05_integrity",
    "C06": "props.c06_crash",
    "C07": "props.c07_unreadable",
    "C08": "props.c08_append_only",
    "C09": "props.c09_parallel_writers",
    "C10": "props.c10_shard_size",
    "C11": "props.c11_shard_metadata",
    "C12": "props.c12_selection",
    "C13": "props.c13_lazy_pool",
    "C14": "props.c14_lazy",
    "C15": "props.c15_rust_equiv",
    "C16": "props.c16_checksums",
    "C17": "props.c17_paths",
    "C18": "props.c18_validation",
    "C19": "props.c19_repeat",
    "C20": "props.c20_reopen",
}


def spawn(modname, stage, tier, seed, widx, nw, n, out, files=()):
    cmd = [
        sys.executable, "-m", "vlib.worker", modname, stage, tier,
        str(seed),
        str(widx),
        str(nw),
        str(n), out, *files
    ]
    env = dict(os.environ)
    env.setdefault("PYTHONHASHSEED", "0")
    env.setdefault("TF_CPP_MIN_LOG_LEVEL", "3")
    env.setdefault("TQDM_DISABLE", "1")
    env.setdefault("CUDA_VISIBLE_DEVICES", "")
    # keep native thread pools small: 16 workers share 16 cores
    env.setdefault("OMP_NUM_THREADS", "2")
    env.setdefault("TF_NUM_INTRAOP_THREADS", "2")
    env.setdefault("TF_NUM_INTEROP_THREADS", "2")
    log = open(out + ".log", "w")
    return subprocess.Popen(cmd,
                            cwd=str(VERIF),
                            env=env,
                            stdout=log,
                            stderr=subprocess.STDOUT)


def main(argv=None) -> int:
    ap = argparse.ArgumentParser()
    ap.add_argument("prop")
    ap.add_argument("--tier", default=None)
    ap.add_argument("--replay", default=None)
    ap.add_argument("--scale", type=float, default=1.0)
    ap.add_argument("--stages", default=None)
    ap.add_argument("--workers", type=int, default=None)
    ap.add_argument("--no-evidence", action="store_true")
    a = ap.parse_args(argv)
    prop = a.prop.upper()
    tier = a.tier or os.environ.get("VERIF_TIER") or "quick"
    if tier not in ("quick", "thorough"):
        tier = "quick"
    try:
        seed = int(os.environ.get("VERIF_SEED", "1"))
    except ValueError:
        seed = 1
    t0 = time.monotonic()
    modname = MODULES[prop]
    try:
        mod = importlib.import_module(modname)
    except Exception as exc:  # pylint: disable=broad-except
        print(f"HARNESS-ERROR: cannot import {modname}: {exc!r}")
        return 2

    # build what the property needs from the current working tree ----------
    from vlib import env
    try:
        if any(s.rust for s in mod.STAGES):
            os.environ["VERIF_RUST_SO"] = str(env.build_rust_ext())
        if getattr(mod, "NEEDS_RUST_HARNESS", False):
            os.environ["VERIF_PMAP_DRIVER"] = str(env.build_rust_harness())
    except env.HarnessError as exc:
        print(f"HARNESS-ERROR: {exc}")
        return 2

    tmp = tempfile.mkdtemp(prefix=f"verif-{prop}-")
    # one scratch directory per run: children killed by a watchdog cannot
    # clean up after themselves, the run does it for them at the end
    run_work = str(env.WORK / f"run-{prop}-{os.getpid()}")
    os.makedirs(run_work, exist_ok=True)
    os.environ["VERIF_WORK"] = run_work
    # a second scratch area on the file system of the system's temp directory
    # (cases that need two different file systems), removed with the run
    os.environ["VERIF_TMP_WORK"] = tmp
    results = []

    # job list -------------------------------------------------------------
    jobs = []  # (stage_name, out, spawn-args)
    if a.replay:
        files = [a.replay]
    else:
        files = sorted(glob.glob(str(VERIF / "replays" / prop / "*.json")))
    if files:
        out = os.path.join(tmp, "replay.json")
        jobs.append(("@replay", out, (modname, "@replay", tier, seed, 0, 1, 0,
                                      out, files)))
    if not a.replay:
        wanted = a.stages.split(",") if a.stages else None
        for stage in mod.STAGES:
            if wanted and stage.name not in wanted:
                continue
            nw = a.workers or stage.workers[tier]
            total = max(1, int(stage.examples[tier] * a.scale))
            if stage.enumerate is None:
                nw = max(1, min(nw, total))
            share = -(-total // nw)
            for w in range(nw):
                out = os.path.join(tmp, f"{stage.name}-{w}.json")
                jobs.append((stage.name, out, (modname, stage.name, tier, seed,
                                               w, nw, share, out)))
    max_procs = int(os.environ.get("VERIF_JOBS", "16"))
    harness_errors = []
    running = []
    pending = list(jobs)

    def collect(stage_name, out, p):
        rc = p.returncode
        if os.path.isfile(out):
            res = json.loads(open(out).read())
            results.append(res)
            for e in res["errors"]:
                harness_errors.append(f"[{stage_name}] {e}")
        else:
            log = ""
            try:
                log = open(out + ".log").read()[-3000:]
            except OSError:
                pass
            harness_errors.append(
                f"[{stage_name}] worker exited rc={rc} without result\n{log}")

    while pending or running:
        while pending and len(running) < max_procs:
            stage_name, out, args = pending.pop(0)
            running.append((stage_name, out, spawn(*args)))
        still = []
        for item in running:
            if item[2].poll() is None:
                still.append(item)
            else:
                collect(*item)
        running = still
        if running:
            time.sleep(0.05)

    # aggregate ------------------------------------------------------------
    ev = 0
    labels = Counter()
    fps = set()
    known = Counter()
    counters = Counter()
    rejected = inconclusive = 0
    samples = []
    violations = []
    per_stage = {}
    cases = 0
    for res in results:
        ev += res["evaluations"]
        cases += res.get("cases", 0)
        labels.update(res["labels"])
        fps.update(res["fingerprints"])
        known.update(res["known"])
        counters.update(res["counters"])
        rejected += res["rejected"]
        inconclusive += res["inconclusive"]
        for s in res["samples"]:
            if len(samples) < 8 and s not in samples:
                samples.append(s)
        violations.extend(res["violations"])
        ps = per_stage.setdefault(res["stage"], {
            "evaluations": 0,
            "distinct_nontrivial": set()
        })
        ps["evaluations"] += res["evaluations"]
        ps["distinct_nontrivial"].update(res["fingerprints"])
    for ps in per_stage.values():
        ps["distinct_nontrivial"] = len(ps["distinct_nontrivial"])

    wall = time.monotonic() - t0
    exhaustive_stages = [
        s.name for s in mod.STAGES if s.exhaustive and s.name in per_stage
    ]
    evidence = {
        "property_id": prop,
        "tier": tier,
        "seed": seed,
        "level": getattr(mod, "LEVEL", "exploration"),
        "coverage": {
            "evaluations": ev,
            "generated_cases": cases,
            "distinct_nontrivial": len(fps),
            "rule": getattr(mod, "RULE", ""),
            "samples": samples,
            "label_histogram": dict(labels.most_common(80)),
            "counters": dict(counters),
            "per_stage": per_stage,
            "rejected_as_invalid": rejected,
            "inconclusive": inconclusive,
            "excluded_by_known_finding": dict(known),
            "exhaustive": False,
            "exhaustive_stages": exhaustive_stages,
        },
        "assumptions": list(getattr(mod, "ASSUMPTIONS", [])),
        "wall_s": round(wall, 2),
        "violations": len(violations),
    }
    if not a.no_evidence and not a.replay:
        (VERIF / "evidence").mkdir(exist_ok=True)
        (VERIF / "evidence" / f"{prop}.json").write_text(
            json.dumps(evidence, indent=1, default=str) + "\n")

    # report ---------------------------------------------------------------
    print(f"{prop} tier={tier} seed={seed} cases={cases} evaluations={ev} "
          f"distinct_nontrivial={len(fps)} rejected={rejected} "
          f"inconclusive={inconclusive} wall={wall:.1f}s")
    top = ", ".join(f"{k}={v}" for k, v in labels.most_common(14))
    print(f"  labels: {top}")
    if counters:
        print("  counters: " +
              ", ".join(f"{k}={v}" for k, v in sorted(counters.items())))
    for f in core.open_findings(prop):
        n = known.get(f["key"], 0)
        print(f"KNOWN-FINDING: property={prop} {f['what']} "
              f"[key={f['key']}; met {n}x in this run]")
    rc = 0
    seen = set()
    violations.sort(key=lambda v: (tuple(v["signature"]), len(v["details"])))
    for v in violations:
        k = tuple(v["signature"])
        if k in seen:
            continue
        seen.add(k)
        same = sum(1 for w in violations if tuple(w["signature"]) == k)
        if same > 1:
            print(f"  ({same} workers reported this signature; showing one)")
        print(f"VIOLATION property={prop} replay={v['replay']}")
        print(f"  clause={v['clause']} signature={'|'.join(v['signature'])}")
        print("  " + v["details"][:1500].replace("\n", "\n  "))
        rc = 1
    if harness_errors:
        for e in harness_errors[:3]:
            print("HARNESS-ERROR: " + e[-3000:])
        if rc == 0:
            rc = 2
    if rc == 0 and ev == 0:
        print("HARNESS-ERROR: nothing was evaluated")
        rc = 2
    try:
        import shutil
        shutil.rmtree(tmp, ignore_errors=True)
        shutil.rmtree(run_work, ignore_errors=True)
    except Exception:  # pylint: disable=broad-except
        pass
    return rc


if __name__ == "__main__":
    sys.exit(main())
