"""inotify (through ctypes) on every directory of one or more trees: sees
opens made by Python, TensorFlow's C++ readers and Rust threads alike."""
from __future__ import annotations

import ctypes
import ctypes.util
import os
import select
import struct

IN_ACCESS = 0x001
IN_MODIFY = 0x002
IN_ATTRIB = 0x004
IN_CLOSE_WRITE = 0x008
IN_CLOSE_NOWRITE = 0x010
IN_OPEN = 0x020
IN_MOVED_FROM = 0x040
IN_MOVED_TO = 0x080
IN_CREATE = 0x100
IN_DELETE = 0x200
IN_ISDIR = 0x40000000

_libc = ctypes.CDLL(ctypes.util.find_library("c") or "libc.so.6",
                    use_errno=True)


class OpenMonitor:

    def __init__(self, roots, mask=IN_OPEN | IN_CLOSE_NOWRITE | IN_CLOSE_WRITE |
                 IN_CREATE | IN_MODIFY | IN_MOVED_TO | IN_DELETE):
        self.fd = _libc.inotify_init1(os.O_NONBLOCK)
        if self.fd < 0:
            raise OSError(ctypes.get_errno(), "inotify_init1")
        self.mask = mask
        self.wd: dict[int, str] = {}
        for root in roots:
            self.add_tree(str(root))
        self.events: list[tuple[str, int]] = []

    def add_dir(self, path: str) -> None:
        wd = _libc.inotify_add_watch(self.fd, path.encode(), self.mask)
        if wd < 0:
            raise OSError(ctypes.get_errno(), f"inotify_add_watch {path}")
        self.wd[wd] = path

    def add_tree(self, root: str) -> None:
        self.add_dir(root)
        for d, subdirs, _ in os.walk(root):
            for s in subdirs:
                self.add_dir(os.path.join(d, s))

    def drain(self) -> list[tuple[str, int]]:
        """Read all pending events; returns the new (path, mask) pairs."""
        new = []
        while True:
            r, _, _ = select.select([self.fd], [], [], 0)
            if not r:
                break
            try:
                buf = os.read(self.fd, 1 << 16)
            except BlockingIOError:
                break
            off = 0
            while off < len(buf):
                wd, mask, _cookie, ln = struct.unpack_from("iIII", buf, off)
                name = buf[off + 16:off + 16 + ln].split(b"\0", 1)[0].decode(
                    errors="replace")
                off += 16 + ln
                base = self.wd.get(wd, "?")
                path = os.path.join(base, name) if name else base
                if mask & IN_ISDIR and mask & IN_CREATE and os.path.isdir(path):
                    try:
                        self.add_tree(path)
                    except OSError:
                        pass
                new.append((path, mask))
        self.events.extend(new)
        return new

    def opened_files(self, suffix: str | None = None) -> list[str]:
        self.drain()
        return [
            p for p, m in self.events if m & IN_OPEN and not m & IN_ISDIR and
            (suffix is None or p.endswith(suffix))
        ]

    def close(self) -> None:
        if self.fd >= 0:
            os.close(self.fd)
            self.fd = -1
