"""Crash-state snapshotter (C06).

"The process dies at any instant, the operating system stays up" means: the
directory holds exactly the effects of the system calls issued so far.  The
writing session runs ONCE with its file-system effects interposed and the
on-disk state is copied at every boundary:

* files opened for writing below the dataset root go through the pure-Python
  ``_pyio`` stack (same buffering policy as the C ``io`` module), whose raw
  layer performs real ``os.write`` calls -- so boundaries are real system
  calls, and every ``os.write`` is additionally split into generated prefixes
  (torn / partial write);
* os.open(O_CREAT) / os.close of such files, os.replace / rename / mkdir /
  remove / unlink / rmdir are boundaries (pathlib, zipfile and numpy reach the
  file system through these names, looked up at call time);
* tf.io.TFRecordWriter (C++): constructor, write, flush, close are
  boundaries; the copy sees whatever bytes TensorFlow has pushed so far.

States are de-duplicated by content; for every distinct state the first
boundary at which it appeared is remembered together with the set of example
ids whose write had started by then.
"""
from __future__ import annotations

import _pyio
import builtins
import hashlib
import io
import os
import shutil
from pathlib import Path


class Snapshotter:

    def __init__(self, root: Path, snap_dir: Path, torn_offsets,
                 all_offsets_for_metadata: bool = False):
        self.root = os.path.realpath(str(root))
        self.snap_dir = Path(snap_dir)
        self.snap_dir.mkdir(parents=True, exist_ok=True)
        self.torn = list(torn_offsets)
        self.all_meta = all_offsets_for_metadata
        self.fds: dict[int, str] = {}
        self.states: dict[str, dict] = {}
        self.order: list[str] = []
        self.boundary = 0
        self.started: set[int] = set()
        self.versions: dict[str, set] = {}  # rel -> complete contents
        self.effects: list[str] = []
        self.saved = {}
        self.active = False
        self.kill_at: int | None = None  # really die at that boundary
        self.boundary_keys: dict[int, str] = {}
        self.dir_counter = 0
        self.errors: list[str] = []

    # ---- helpers -----------------------------------------------------------
    def under_root(self, path) -> bool:
        try:
            p = os.path.abspath(os.fsdecode(path))
        except TypeError:
            return False
        return p == self.root or p.startswith(self.root + os.sep)

    def rel(self, path) -> str:
        return os.path.relpath(os.path.abspath(os.fsdecode(path)), self.root)

    def record_version(self, rel: str, content: bytes) -> None:
        self.versions.setdefault(rel, set()).add(content)

    def snapshot(self, label: str) -> None:
        """Copy the tree if its content is new.  A failure of the instrument
        itself is remembered (the code under test might swallow the
        exception) and re-raised by ``raise_if_failed``."""
        try:
            self._snapshot(label)
        except Exception as exc:  # pylint: disable=broad-except
            self.errors.append(f"{type(exc).__name__}: {exc} at boundary "
                               f"{self.boundary} ({label})")
            raise

    def raise_if_failed(self) -> None:
        if self.errors:
            raise RuntimeError("snapshotter failed: " + "; ".join(
                self.errors[:3]))

    def _snapshot(self, label: str) -> None:
        self.boundary += 1
        if self.kill_at is not None and self.boundary == self.kill_at:
            os.kill(os.getpid(), 9)
        files = {}
        for d, _, names in os.walk(self.root):
            for n in names:
                if n.startswith("update_"):
                    # in-flight temp file of a metadata update: no reader and
                    # no oracle clause ever looks at it, so states that differ
                    # only there are the same crash state
                    continue
                full = os.path.join(d, n)
                try:
                    with self.saved["open"](full, "rb") as f:
                        data = f.read()
                except OSError:
                    continue
                files[os.path.relpath(full, self.root)] = data
        h = hashlib.sha1()
        for r in sorted(files):
            h.update(r.encode() + b"\0" + hashlib.sha1(files[r]).digest())
        dirs = sorted(
            os.path.relpath(os.path.join(d, s), self.root)
            for d, subs, _ in os.walk(self.root) for s in subs)
        h.update("|".join(dirs).encode())
        key = h.hexdigest()
        self.boundary_keys[self.boundary] = key
        if key in self.states:
            self.states[key]["last_boundary"] = self.boundary
            return
        self.dir_counter += 1
        dst = self.snap_dir / f"{self.dir_counter:06d}"
        os.makedirs(dst)
        for d in dirs:
            os.makedirs(dst / d, exist_ok=True)
        for r, data in files.items():
            os.makedirs((dst / r).parent, exist_ok=True)
            with self.saved["open"](dst / r, "wb") as f:
                f.write(data)
        self.states[key] = {
            "dir": str(dst),
            "boundary": self.boundary,
            "last_boundary": self.boundary,
            "label": label,
            "started": set(self.started),
            "index": len(self.order),
        }
        self.order.append(key)

    # ---- interposed functions ---------------------------------------------
    def install(self) -> None:
        s = self.saved
        s["open"] = builtins.open
        s["io_open"] = io.open
        for name in ("open", "write", "close", "replace", "rename", "mkdir",
                     "remove", "unlink", "rmdir", "truncate", "ftruncate"):
            s["os_" + name] = getattr(os, name)
        snap = self

        def open_(file, mode="r", *a, **k):
            if (isinstance(file, (str, bytes, os.PathLike)) and
                    any(c in mode for c in "wax+") and snap.under_root(file)):
                return _pyio.open(file, mode, *a, **k)
            return s["open"](file, mode, *a, **k)

        def os_open(path, flags, mode=0o777, *a, **k):
            fd = s["os_open"](path, flags, mode, *a, **k)
            if snap.active and snap.under_root(path) and flags & (
                    os.O_WRONLY | os.O_RDWR):
                snap.fds[fd] = snap.rel(path)
                snap.effects.append(f"open {snap.fds[fd]}")
                snap.snapshot("open:" + _role(snap.fds[fd]))
            return fd

        def os_write(fd, data):
            rel = snap.fds.get(fd) if snap.active else None
            if rel is None:
                return s["os_write"](fd, data)
            data = bytes(data)
            n = len(data)
            offs = {j for j in snap.torn if 0 < j < n}
            offs |= {x for x in (1, n // 2, n - 1) if 0 < x < n}
            if snap.all_meta and rel.endswith(".json"):
                offs = set(range(1, n))
            done = 0
            for j in sorted(offs):
                s["os_write"](fd, data[done:j])
                done = j
                snap.snapshot("torn-write:" + _role(rel))
            s["os_write"](fd, data[done:])
            snap.effects.append(f"write {rel} {n}")
            snap.snapshot("write:" + _role(rel))
            return n

        def os_close(fd):
            rel = snap.fds.pop(fd, None)
            res = s["os_close"](fd)
            if rel is not None and snap.active:
                snap.effects.append(f"close {rel}")
                snap.snapshot("close:" + _role(rel))
            return res

        def two_path(name):

            def f(src, dst, *a, **k):
                tracked = snap.active and (snap.under_root(src) or
                                           snap.under_root(dst))
                if tracked and snap.under_root(dst):
                    try:
                        with s["open"](src, "rb") as fh:
                            snap.record_version(snap.rel(dst), fh.read())
                    except OSError:
                        pass
                res = s["os_" + name](src, dst, *a, **k)
                if tracked:
                    snap.effects.append(f"{name} -> {snap.rel(dst)}")
                    snap.snapshot(f"{name}:" + _role(snap.rel(dst)))
                return res

            return f

        def one_path(name):

            def f(path, *a, **k):
                res = s["os_" + name](path, *a, **k)
                if snap.active and snap.under_root(path):
                    snap.effects.append(f"{name} {snap.rel(path)}")
                    snap.snapshot(f"{name}:" + _role(snap.rel(path)))
                return res

            return f

        builtins.open = open_
        io.open = open_
        os.open = os_open
        os.write = os_write
        os.close = os_close
        os.replace = two_path("replace")
        os.rename = two_path("rename")
        for name in ("mkdir", "remove", "unlink", "rmdir", "truncate"):
            setattr(os, name, one_path(name))
        # TensorFlow's C++ record writer
        try:
            import tensorflow as tf
            real_cls = tf.io.TFRecordWriter
            s["tfw"] = real_cls

            class SnapTFWriter:

                def __init__(self, path, options=None):
                    self._path = path
                    self._w = real_cls(path, options)
                    self._tracked = snap.active and snap.under_root(path)
                    if self._tracked:
                        snap.snapshot("tfrec-open:shard")

                def write(self, record):
                    r = self._w.write(record)
                    if self._tracked:
                        snap.snapshot("tfrec-write:shard")
                    return r

                def flush(self):
                    r = self._w.flush()
                    if self._tracked:
                        snap.snapshot("tfrec-flush:shard")
                    return r

                def close(self):
                    r = self._w.close()
                    if self._tracked:
                        snap.snapshot("tfrec-close:shard")
                    return r

                def __enter__(self):
                    return self

                def __exit__(self, *exc):
                    self.close()

            tf.io.TFRecordWriter = SnapTFWriter
        except Exception:  # pylint: disable=broad-except
            s["tfw"] = None
        self.active = True

    def uninstall(self) -> None:
        self.active = False
        s = self.saved
        builtins.open = s["open"]
        io.open = s["io_open"]
        for name in ("open", "write", "close", "replace", "rename", "mkdir",
                     "remove", "unlink", "rmdir", "truncate"):
            setattr(os, name, s["os_" + name])
        if s.get("tfw") is not None:
            import tensorflow as tf
            tf.io.TFRecordWriter = s["tfw"]


def _role(rel: str) -> str:
    name = os.path.basename(rel)
    if name.startswith("update_"):
        return "temp"
    if name == "dataset_info.json":
        return "description"
    if name == "shards_list.json":
        return "list-depth%d" % rel.count("/")
    return "shard"


def cleanup(path) -> None:
    shutil.rmtree(path, ignore_errors=True)
