"""prints the prompt for a seeding sub-agent: python tools_seed_prompt.py C04"""
import json, sys
pid = sys.argv[1]
base = sys.argv[2] if len(sys.argv) > 2 else "/tmp/seed"
avoid = sys.argv[3] if len(sys.argv) > 3 else ""
wt = f"{base}/{pid}"
prop = None
for l in open('/verif/properties.jsonl'):
    p = json.loads(l)
    if p['id'] == pid:
        prop = p
text = json.dumps({k: prop[k] for k in ("id", "title", "statement", "quantifier", "why_tests_cant", "anchors")}, indent=1)
print(f"""You are helping to evaluate a verification effort for the open-source Python/Rust library google/sedpack (an ML dataset packing library: sharded examples in FlatBuffers/npz/TFRecord files, hashed JSON shard-list metadata, shuffled iteration). Your job is to play the role of a developer who introduces a realistic, subtle regression.

You have your own scratch git worktree of the repository at {wt} . Work ONLY inside {wt} (never touch /repo, /verif or any other directory; do not read anything under /verif). There is no network.

Here is a semantic property of sedpack that is supposed to hold (JSON record: statement, quantifier, why the existing tests cannot settle it, and the code anchors that implement it):

{text}

{avoid}TASK: produce TWO different, independent source changes to sedpack (each one as its own patch against the clean worktree) such that each change
  (a) BREAKS the property above (the statement, for some input/sequence/schedule in its quantifier),
  (b) still compiles/imports, and the complete existing test suite still passes with it,
  (c) looks like a plausible developer mistake or "optimisation"/"refactoring" (off-by-one, dropped step, reordered steps, wrong variable, overly clever shortcut, lost edge case), not sabotage,
  (d) needs something SPECIFIC to manifest - a particular interleaving or timing, a crash/fault at a particular point, a multi-step sequence of operations, an unusual input or size/parameter relation, or two cooperating sites that each look fine alone. A change that ordinary basic use would expose at once is not wanted. The two changes should differ in root cause and in what triggers them.

For each change also write a demonstration: a small self-contained Python program (or pytest file) that FAILS (non-zero exit) with the change applied and PASSES (exit 0) on the clean worktree. It must be deterministic or retry enough to be reliable, finish in under 2 minutes, and must not hang forever (use timeouts if the failure mode is a hang).

Practicalities:
 - Python: always use /venv/bin/python with PYTHONPATH={wt}/src (check that `import sedpack; sedpack.__file__` points into {wt}). The package is pure Python under {wt}/src/sedpack plus a Rust extension (sources in {wt}/rust/src); a prebuilt copy of the extension is already in {wt}/src/sedpack/_sedpack_rs*.so. If (and only if) you change Rust code, rebuild with: cd {wt}/rust && CARGO_TARGET_DIR={wt}/rust_target PYO3_PYTHON=/venv/bin/python cargo build --release --offline --features pyo3/extension-module && cp {wt}/rust_target/release/libsedpack_rs.so {wt}/src/sedpack/_sedpack_rs.cpython-312-x86_64-linux-gnu.so  (and state clearly in meta.json that the change is in Rust). Remove {wt}/rust_target when done.
 - Existing tests: cd {wt} && PYTHONPATH={wt}/src /venv/bin/python -m pytest -q -p no:cacheprovider -n 4 --timeout=900 tests   (205 tests, about 1-2 minutes; all must pass with each change applied). Importing sedpack.io takes ~3 s (TensorFlow).
 - Do not edit or add tests inside the repository's tests/ directory as part of a patch; patches touch only library source (src/ or rust/src).
 - Keep each patch small (ideally < 25 changed lines).

Deliverables, all inside {wt}/seed/ :
  change1/patch.diff   (output of `git diff` in {wt} for change 1 only, applicable with `git apply` to the clean worktree)
  change1/demo.py      (the demonstration; run as: PYTHONPATH=<tree>/src /venv/bin/python demo.py ; it must not hard-code {wt} - derive nothing from paths, just import sedpack)
  change1/meta.json    ({{"property": "{pid}", "summary": ..., "files": [...], "needs_to_manifest": "...what specific input/sequence/timing triggers it...", "why_tests_pass": "...", "language": "python"|"rust", "verified": {{"tests_pass_with_change": true/false, "demo_fails_with_change": true/false, "demo_passes_without_change": true/false}}}})
  change2/...          (same for the second change)
When finished, leave the worktree CLEAN (git checkout -- . so that only the untracked seed/ directory remains) and report briefly what the two changes are. Actually verify every claim in "verified" by running it; do not guess.""")
