"""C10  Shards respect the configured size.

Domain: examples_per_shard x write sequences (splits interleaved, counts around
multiples of the size, metadata changes at generated positions) x 1..3 filler
sessions (root / new / reused sub-directory, handle kept or reopened; npz also
with a variable-size attribute declared after the id; rejected writes -- one
attribute of the wrong shape / kind -- at generated positions; the writer
program may seed the global random generators with a constant per session).
Oracle (statement-level predicates, evaluated on the plain-json walk of the
metadata AND on the decoded shard files):
  * 1 <= size <= eps for every recorded shard, recorded size == decodable size
  * per (session, split): the shards, concatenated in list order, are the
    session's writes in write order (this is what lets the oracle know which
    write opened which shard);
  * a shard that is not the last one of its (session, split) and is not full
    must be followed by a shard whose first example was written with a
    non-empty metadata value different from the latest non-empty value passed
    before it in that (session, split) -- the only event the statement allows
    to cut a shard short.
"""
from __future__ import annotations

from hypothesis import strategies as st

from vlib import dsops, history, oracles
from vlib.core import Stage

ID = "C10"
LEVEL = "exploration"
RULE = ("Hypothesis op-lists: eps in 1..6 (sometimes larger), 1..3 filler "
        "sessions of runs [split,count,metadata] with counts biased to 0,1,"
        "k*eps-1,k*eps,k*eps+1. Non-trivial: some (session,split) count is "
        "0 or +-1 mod eps with >= 2 shards, or a metadata change happens "
        "inside a session. Distinct by (eps, per-session per-split counts "
        "mod eps, change positions mod eps, number of sessions).")
ASSUMPTIONS = [
    "shard contents are decoded one file at a time with the harness' own "
    "FlatBuffers walker (fb) or numpy/TF single-file readers (npz/tfrec)",
    "sessions that raise are owned by C08 and end the history here",
]


@st.composite
def _case(draw, tier):
    eps = draw(st.one_of(st.integers(1, 6), st.sampled_from([1, 2, 3, 7, 16])))
    fmt_w = ["fb"] * 5 + ["npz"] * 3
    fmt = draw(st.sampled_from(fmt_w))
    desc = dsops.simple_desc(fmt,
                             draw(st.sampled_from(dsops.COMPRESSIONS[fmt][:2])),
                             eps, ["xxh64"],
                             payload=False,
                             var_attr=draw(st.booleans()))
    n_sessions = draw(st.integers(1, 3))
    ops = []
    for _ in range(n_sessions):
        runs = draw(
            st.lists(st.tuples(st.integers(0, 2), history.st_count(eps),
                               st.sampled_from([0, 0, 1, 2, 2, 3, 3, 4, 4, 5,
                                                6, 6, 7, 8]),
                               st.one_of(st.none(), st.none(),
                                         st.integers(0, 12))).map(list),
                     min_size=1,
                     max_size=7))
        ops.append({
            "k": "filler",
            "dir": {
                "rel": draw(st.sampled_from(["root", "root", "new", "reuse"])),
                "pick": draw(st.integers(0, 3))
            },
            "runs": runs,
            "reopen": draw(st.booleans()),
            "shared_meta": draw(st.booleans()),
            "rseed": draw(history.ST_RSEED),
        })
    return {"desc": desc, "ops": ops}


def strategy(tier):
    return _case(tier)


def run_case(case, ctx):
    from vlib.core import Violation  # noqa
    desc, eps = case["desc"], case["desc"]["eps"]
    root = __import__("vlib.env", fromlist=["x"]).scratch_dir("c10")
    try:
        h = history.History(root / "ds", desc)
        for op in case["ops"]:
            try:
                h.apply(op)
            except history.SessionFailed as exc:
                ctx.label("aborted_history:" + type(exc.exc).__name__)
                return
        tree = dsops.walk_dataset(h.root)
        nontrivial = False
        fp = [eps, len(case["ops"])]
        for split in dsops.SPLITS:
            written = h.model[split]
            if split not in tree["splits"]:
                if written:
                    ctx.fail("sum", ("missing-split",),
                             f"{len(written)} writes to {split}, split absent")
                continue
            shards = dsops.shards_in_order(tree["splits"][split]["node"])
            by_id = {r["id"]: r for r in written}
            seen_ids = []
            per_session: dict[int, list] = {}
            for sh in shards:
                n = sh["n"]
                if not 1 <= n <= eps:
                    ctx.fail("bounds", ("size-out-of-bounds",
                                        "low" if n < 1 else "high"),
                             f"shard {sh['files']} records {n} examples, "
                             f"eps={eps}")
                ok, exs = oracles.guarded(
                    ctx, "bounds", ("listed-shard-undecodable",),
                    f"decoding listed shard {sh['files']} (records {n})",
                    lambda: dsops.decode_shard(h.root / sh["files"][0], desc))
                if not ok:
                    continue
                ids = [dsops.ex_id_of(e) for e in exs]
                if len(ids) != n:
                    ctx.fail("bounds", ("recorded-vs-decoded",),
                             f"{sh['files']} records {n}, holds {len(ids)}")
                if not 1 <= len(ids) <= eps:
                    ctx.fail("bounds", ("stored-size-out-of-bounds",),
                             f"{sh['files']} holds {len(ids)}, eps={eps}")
                unknown = [i for i in ids if i not in by_id]
                if unknown:
                    ctx.fail("sum", ("unknown-example",),
                             f"{sh['files']} holds ids {unknown} never written"
                             f" to {split}")
                sess = {by_id[i]["session"] for i in ids}
                if len(sess) != 1:
                    ctx.fail("order", ("shard-mixes-sessions",),
                             f"{sh['files']} ids {ids}")
                per_session.setdefault(sess.pop(), []).append(ids)
                seen_ids.extend(ids)
            if sorted(seen_ids) != sorted(by_id):
                ctx.fail("sum", ("sum-mismatch",),
                         f"{split}: {len(by_id)} writes, shards hold "
                         f"{len(seen_ids)} examples")
            for s_no, shard_ids in per_session.items():
                writes = [r for r in written if r["session"] == s_no]
                flat = [i for ids in shard_ids for i in ids]
                if flat != [r["id"] for r in writes]:
                    ctx.fail("order", ("not-write-order",),
                             f"{split} session {s_no}: shards {shard_ids} vs "
                             f"writes {[r['id'] for r in writes]}")
                # change events: a call (accepted OR rejected -- a rejected
                # call with other metadata still is a metadata change as far
                # as the shard layout is concerned) whose non-empty metadata
                # differs from the latest non-empty metadata passed before it
                # in this (session, split).
                last_nonempty = None
                change_since_prev_write = []  # per accepted write
                pending_change = False
                for r in h.calls[split]:
                    if r["session"] != s_no:
                        continue
                    if r["meta"]:
                        if last_nonempty and r["meta"] != last_nonempty:
                            pending_change = True
                        last_nonempty = r["meta"]
                    if r["id"] is not None:
                        change_since_prev_write.append(pending_change)
                        pending_change = False
                pos = 0
                changes = []
                for k, ids in enumerate(shard_ids):
                    pos += len(ids)
                    if k == len(shard_ids) - 1:
                        break
                    if len(ids) == eps:
                        continue
                    nxt = writes[pos]  # the write that opened the next shard
                    if not change_since_prev_write[pos]:
                        ctx.fail(
                            "full", ("short-shard-without-metadata-change",),
                            f"{split} session {s_no}: shard #{k} has "
                            f"{len(ids)}<{eps} examples but no call between "
                            f"its last example and the next shard's first "
                            f"(id {nxt['id']}, meta {nxt['meta']}) changed "
                            f"the metadata; layout "
                            f"{[len(x) for x in shard_ids]}; calls "
                            f"{[(c['id'], c['meta']) for c in h.calls[split] if c['session'] == s_no]}")
                    changes.append(pos % eps)
                cnt = len(writes)
                if (len(shard_ids) >= 2 and cnt % eps in (0, 1, eps - 1)) \
                        or changes:
                    nontrivial = True
                fp.append((split, cnt % eps, min(len(shard_ids), 4),
                           tuple(changes[:4])))
                if changes:
                    ctx.label("metadata-change")
                ctx.label(f"count_mod_eps={'0' if cnt % eps == 0 else ('1' if cnt % eps == 1 else ('-1' if cnt % eps == eps - 1 else 'other'))}")
        ctx.label(f"sessions={len(case['ops'])}", "fmt=" + desc["fmt"])
        if nontrivial:
            ctx.nontrivial(fp)
    finally:
        dsops.rmtree(root)


STAGES = [
    Stage(name="layout",
          run=run_case,
          strategy=strategy,
          examples={
              "quick": 3000,
              "thorough": 200000
          },
          fork=False)
]
