"""C11  Shard-level custom metadata describes exactly the examples it labels.

Write sequences whose metadata argument is absent, {}, one of a few literal
dicts (nested values allowed) or ONE shared mutable object that the op-list
mutates in place (top-level and nested keys) between writes, across shard-size
boundaries and splits, 1..2 sessions (handle kept or reopened).
Oracle: the harness deep-copies the argument at call time (m_i).  After the
sessions, for every write with non-empty m_i the shard whose file holds
example i records custom_metadata == json_roundtrip(m_i); and iterating with
shard_filter = (custom_metadata == m) returns, among the examples written with
non-empty metadata, exactly those written with m -- and the same examples when
the filter is combined with a custom_metadata_type_limit larger than the
number of shards (metamorphic: a limit that cannot restrict anything; only
where all recorded values are hashable).  Examples written without
metadata carry no obligation (documented retroactive labelling stays legal).
"""
from __future__ import annotations

import copy
import json

from hypothesis import strategies as st

from vlib import dsops, env
from vlib.core import Stage

ID = "C11"
LEVEL = "exploration"
RULE = ("Hypothesis op-lists of writes (split, metadata spec) with eps 1..4, "
        "1..2 sessions. Non-trivial: an in-place mutation of the shared "
        "object between two writes that use it, or an alternation A,B,A of "
        "literal values in one split. Distinct by the abstract pattern of "
        "the sequence (per write: split, spec kind, value id / mutation "
        "path).")
ASSUMPTIONS = [
    "metadata values are JSON-representable (strings, ints, nested dicts, "
    "lists); equality is after a JSON round-trip",
]

LITERALS = [
    {"k": 1},
    {"k": 2},
    {"k": 1, "t": "x"},
    {"n": {"a": 1, "b": [1, 2]}},
    {"n": {"a": 2, "b": [1, 2]}},
    {"k": "1"},
]
MUTATIONS = [
    ["k", 1], ["k", 2], ["k", 3], ["t", "x"], ["n.a", 1], ["n.a", 2],
    ["n.b", [3]], ["del:t", None], ["l.append", 7]
]


def st_write():
    meta = st.one_of(
        st.just({"kind": "none"}),
        st.just({"kind": "empty"}),
        st.builds(lambda i: {"kind": "lit", "i": i},
                  st.integers(0, len(LITERALS) - 1)),
        st.builds(lambda m: {"kind": "shared", "mut": m},
                  st.one_of(st.none(), st.sampled_from(MUTATIONS))),
        st.builds(lambda m: {"kind": "shared", "mut": m},
                  st.sampled_from(MUTATIONS)),
    )
    return st.fixed_dictionaries({
        "split": st.integers(0, 1),
        "meta": meta,
        # the example itself is invalid (wrong shape): the write is rejected,
        # the caller catches the error and carries on
        "bad": st.integers(0, 6).map(lambda x: x == 0),
    })


def strategy(tier):
    return st.fixed_dictionaries({
        "fmt": st.sampled_from(["fb", "fb", "npz"]),
        "eps": st.integers(1, 4),
        "sessions": st.lists(st.lists(st_write(), min_size=1, max_size=12),
                             min_size=1,
                             max_size=2),
        "reopen": st.booleans(),
        "hashes": st.sampled_from([["xxh64"], ["xxh64"], []]),
    })


def mutate(obj: dict, mut):
    path, value = mut
    if path.startswith("del:"):
        obj.pop(path[4:], None)
    elif path == "l.append":
        obj.setdefault("l", []).append(value)
    elif "." in path:
        a, b = path.split(".")
        if not isinstance(obj.get(a), dict):
            obj[a] = {}
        obj[a][b] = value
    else:
        obj[path] = value


def jr(x):
    return json.loads(json.dumps(x))


def run_case(case, ctx):
    from sedpack.io import Dataset
    desc = dsops.simple_desc(case["fmt"], "", case["eps"],
                             case.get("hashes", ["xxh64"]), payload=False)
    root = env.scratch_dir("c11")
    try:
        ds = dsops.create_dataset(root / "ds", desc)
        shared = {"k": 0, "n": {"a": 0}}
        written = []  # (id, split, m_i deep copy or None)
        next_id = 0
        pattern = []
        mutated_between = False
        for s_no, writes in enumerate(case["sessions"]):
            if s_no > 0 and case["reopen"]:
                ds = Dataset(root / "ds")
            shared_used = False
            with ds.filler() as filler:
                for w in writes:
                    split = dsops.SPLITS[w["split"]]
                    m = w["meta"]
                    kwargs = {}
                    if m["kind"] == "empty":
                        kwargs["custom_metadata"] = {}
                    elif m["kind"] == "lit":
                        kwargs["custom_metadata"] = copy.deepcopy(
                            LITERALS[m["i"]])
                    elif m["kind"] == "shared":
                        if m["mut"] is not None:
                            before = copy.deepcopy(shared)
                            mutate(shared, m["mut"])
                            if shared_used and before != shared:
                                mutated_between = True
                        kwargs["custom_metadata"] = shared  # the same object
                        shared_used = True
                    m_i = copy.deepcopy(kwargs.get("custom_metadata"))
                    if w.get("bad"):
                        values = dsops.example_for(desc, next_id)
                        values["id"] = __import__("numpy").zeros((2,), "int64")
                        try:
                            filler.write_example(values=values, split=split,
                                                 **kwargs)
                        except Exception:  # pylint: disable=broad-except
                            pattern.append((w["split"], "rejected",
                                            m["kind"], m.get("i")))
                            ctx.label("rejected-write")
                            continue
                    filler.write_example(values=dsops.example_for(
                        desc, next_id),
                                         split=split,
                                         **kwargs)
                    written.append((next_id, split, m_i if m_i else None))
                    pattern.append((w["split"], m["kind"], m.get("i"),
                                    str(m.get("mut"))))
                    next_id += 1
            # the caller keeps using its object after the session as well
            mutate(shared, ["k", 99 + s_no])
            # selecting by metadata through the handle that is kept across
            # sessions must see what has been written so far
            for split in dsops.SPLITS[:2]:
                labelled = [(i, mi) for i, s, mi in written
                            if s == split and mi is not None]
                if not labelled:
                    continue
                m = jr(labelled[-1][1])
                want = sorted(i for i, mi in labelled if jr(mi) == m)
                try:
                    got = sorted(
                        dsops.ex_id_of(e) for e in dsops.read_all(
                            ds, split, "sync", shuffle=0,
                            shard_filter=lambda s, m=m: s.custom_metadata == m)
                        if dsops.ex_id_of(e) in {i for i, _ in labelled})
                except ValueError:
                    got = []
                if got != want:
                    ctx.fail(
                        "select", ("filter-by-metadata-mismatch",
                                   "kept-handle"),
                        f"after session {s_no} the kept handle selects "
                        f"{got} for metadata {m} in {split}, written with it: "
                        f"{want}")
                ctx.count("filters")
                ctx.evaluated()
        # ---- oracle
        tree = dsops.walk_dataset(root / "ds")
        where = {}
        for split, entry in tree["splits"].items():
            for sh in dsops.shards_in_order(entry["node"]):
                try:
                    stored = dsops.decode_shard(root / "ds" / sh["files"][0],
                                                desc)
                except Exception as exc:  # pylint: disable=broad-except
                    ctx.fail("label", ("listed-shard-undecodable",
                                       type(exc).__name__),
                             f"{sh['files'][0]} does not decode: {exc!r}")
                    continue
                for ex in stored:
                    where[dsops.ex_id_of(ex)] = sh
        for ex_id, split, m_i in written:
            if m_i is None:
                continue
            sh = where.get(ex_id)
            if sh is None:
                ctx.fail("label", ("example-not-stored",),
                         f"example {ex_id} is in no listed shard")
                continue
            if sh["meta"] != jr(m_i):
                ctx.fail(
                    "label", ("shard-metadata-differs-from-written",),
                    f"example {ex_id} (split {split}) was written with "
                    f"{m_i} but its shard {sh['files'][0][-12:]} records "
                    f"{sh['meta']}; sequence "
                    f"{[(i, s[:2], m) for i, s, m in written]}")
        fresh = Dataset(root / "ds")
        distinct = []
        for _, _, m_i in written:
            if m_i is not None and jr(m_i) not in distinct:
                distinct.append(jr(m_i))
        for m in distinct:
            for split in dsops.SPLITS[:2]:
                want = sorted(i for i, s, mi in written
                              if s == split and mi is not None and jr(mi) == m)
                obligated = {
                    i for i, s, mi in written if s == split and mi is not None
                }
                if split not in tree["splits"]:
                    continue
                try:
                    got = [
                        dsops.ex_id_of(e) for e in dsops.read_all(
                            fresh,
                            split,
                            "sync",
                            shuffle=0,
                            shard_filter=lambda s, m=m: s.custom_metadata == m)
                    ]
                except ValueError:
                    got = []  # nothing selected
                got_obl = sorted(i for i in got if i in obligated)
                if got_obl != want:
                    ctx.fail(
                        "select", ("filter-by-metadata-mismatch",),
                        f"selecting shards with metadata {m} in {split} "
                        f"returns obligated examples {got_obl}, written with "
                        f"it: {want}")
                # ... nor does limiting the selection to as many shards as
                # carry that metadata
                m_count = sum(1 for sh in dsops.shards_in_order(
                    tree["splits"][split]["node"]) if sh["meta"] == m)
                if m_count:
                    try:
                        got3 = [
                            dsops.ex_id_of(e) for e in dsops.read_all(
                                fresh, split, "sync", shuffle=0,
                                shards=m_count,
                                shard_filter=lambda s, m=m:
                                s.custom_metadata == m)
                        ]
                    except ValueError:
                        got3 = []
                    if got3 != got:
                        ctx.fail(
                            "select", ("filter-with-unrestrictive-shards",),
                            f"selecting shards with metadata {m} in {split} "
                            f"returns {got}, together with shards={m_count} "
                            f"(the number of such shards) it returns {got3}")
                # the same selection combined with a per-metadata shard limit
                # which cannot restrict anything (more than there are shards)
                # selects the same examples (the limit hashes the values, so
                # only where all recorded values are hashable)
                flat = all(
                    all(isinstance(v, (str, int, float, bool, type(None)))
                        for v in sh["meta"].values())
                    for sh in dsops.shards_in_order(
                        tree["splits"][split]["node"]))
                if flat:
                    try:
                        got2 = [
                            dsops.ex_id_of(e) for e in dsops.read_all(
                                fresh, split, "sync", shuffle=0,
                                custom_metadata_type_limit=10**6,
                                shard_filter=lambda s, m=m:
                                s.custom_metadata == m)
                        ]
                    except ValueError:
                        got2 = []
                    if got2 != got:
                        ctx.fail(
                            "select", ("filter-with-unrestrictive-limit",),
                            f"selecting shards with metadata {m} in {split} "
                            f"returns {got}, together with "
                            f"custom_metadata_type_limit=10**6 it returns "
                            f"{got2}")
                    ctx.label("filter+limit")
                ctx.count("filters")
                ctx.evaluated()
        aba = False
        for sp in (0, 1):
            lits = [p[2] for p in pattern if p[0] == sp and p[1] == "lit"]
            for i in range(len(lits) - 2):
                if lits[i] == lits[i + 2] != lits[i + 1]:
                    aba = True
        ctx.label("fmt=" + case["fmt"], f"sessions={len(case['sessions'])}")
        if mutated_between:
            ctx.label("in-place-mutation")
        if aba:
            ctx.label("A,B,A")
        if mutated_between or aba:
            ctx.nontrivial([case["eps"], pattern])
    finally:
        dsops.rmtree(root)


STAGES = [
    Stage(name="labels",
          run=run_case,
          strategy=strategy,
          examples={
              "quick": 2000,
              "thorough": 120000
          })
]
