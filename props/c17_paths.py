"""C17  Paths taken from metadata cannot escape the dataset directory.

Path strings from a grammar (components '.', '..', '', plain / blank /
Unicode names, 'shards_list.json', split names; 1..3 separators; optional
leading and trailing '/'; depth <= 8) plus absolute and relative spellings of
a DECOY directory next to the dataset root (incl. look-alike characters which
a compatibility normalisation folds to '.', '..' and '/', and a path through
a harmless in-dataset symbolic link to the root followed by '..').  Injection point: any path-valued
metadata field of an otherwise valid dataset (split entry in
dataset_info.json, relative_path_self, child list entry, shard file entry) --
with the checksum chain above the edited file recomputed and a decoy copy of
the named file planted where the path resolves to, so that an implementation
that follows the path SUCCEEDS and is caught doing so -- or the
relative_path_from_split argument of DatasetFiller.
Oracle: independent lexical resolution (os.path.normpath(join(root, p))).
Reader side: while opening, checking and iterating (two interfaces) no file
outside the root may be opened (Python audit hook + inotify on everything next
to the root, which also sees TensorFlow and Rust), and if p resolves outside
the root the open/check/iterate sequence must raise.  Writer side: every file
or directory created lies inside the root.  Paths resolving inside the root
may be accepted or rejected.
"""
from __future__ import annotations

import json
import os
import shutil
import sys
from pathlib import Path

from hypothesis import strategies as st

from vlib import dsops, env, openmon
from vlib.core import Stage

ID = "C17"
LEVEL = "exploration"
RULE = ("Hypothesis path strings (grammar + decoy spellings) x injection "
        "point {split-entry, relative_path_self, child-entry, shard-entry, "
        "filler-subdir} x format. Non-trivial: the path resolves outside the "
        "dataset root. Distinct by (injection point, escape kind in "
        "{dot-dot, absolute, mixed}, normalised shape of the path, second "
        "interface).")
ASSUMPTIONS = [
    "stage paths: no symbolic links (lexical resolution is the oracle); stage "
    "symlink only asserts the anchored mechanism: a writer must not READ a "
    "shards_list.json that a symbolic link places outside the root (readers "
    "following symlinks are legitimate use and not asserted)",
    "opens are observed by a Python audit hook and by inotify on the "
    "sandbox directories outside the root",
]

NAMES = ["a", "b c", "données", "shards_list.json", "train", "test", "x.fb",
         "decoy", "ds", "...", "..\\..", "a\\..\\..\\b", "\\", "c:\\x"]


def st_component():
    return st.one_of(st.sampled_from([".", "..", "..", "", "."]),
                     st.sampled_from(NAMES),
                     st.text(alphabet="ab. ", min_size=1, max_size=3))


@st.composite
def st_path(draw):
    kind = draw(
        st.sampled_from([
            "grammar", "grammar", "decoy-abs", "decoy-rel", "decoy-rel-noisy",
            "abs-inside", "root-relative-up", "decoy-rel-backslash",
            "decoy-abs-backslash", "decoy-rel-mixed-sep",
            "decoy-abs-doubleslash", "decoy-abs-tripleslash",
            "decoy-rel-deep", "decoy-rel-deep", "decoy-rel-unicode",
            "decoy-rel-via-link"
        ]))
    if kind == "grammar":
        comps = draw(st.lists(st_component(), min_size=1, max_size=8))
        seps = draw(
            st.lists(st.sampled_from(["/", "/", "//", "///"]),
                     min_size=len(comps),
                     max_size=len(comps)))
        s = "".join(c + sep for c, sep in zip(comps, seps))
        if not draw(st.booleans()):
            s = s.rstrip("/")
        if draw(st.integers(0, 3)) == 0:
            s = "/" + s
        return {"kind": kind, "text": s}
    return {
        "kind": kind,
        "ups": draw(st.integers(1, 4)),
        "noise": draw(st.lists(st.sampled_from(["./", "x/../", "//"]),
                               max_size=3)),
    }


def strategy(tier):
    return st.fixed_dictionaries({
        "fmt": st.sampled_from(["fb", "fb", "npz", "tfrec"]),
        "point": st.sampled_from(
            ["split-entry", "self", "child-entry", "shard-entry", "shard-entry",
             "filler-subdir", "filler-subdir"]),
        "path": st_path(),
        "iface": st.integers(0, 9),
        "plant": st.booleans(),
    })


def inside(root: str, path: str) -> bool:
    root = os.path.normpath(root)
    path = os.path.normpath(path)
    return path == root or path.startswith(root + os.sep)


def concrete_path(spec, base_dir: str, root: str, decoy: str, tail: str,
                  depth_from_root: int) -> str:
    """Turn the generated spec into the string injected in place of a path
    that used to be ``<something>/<tail>`` (relative to the root)."""
    kind = spec["kind"]
    if kind == "grammar":
        return spec["text"]
    if kind == "decoy-abs":
        return os.path.join(decoy, tail)
    if kind == "abs-inside":
        return os.path.join(root, base_dir, tail)
    if kind == "root-relative-up":
        return "../" * spec["ups"] + os.path.basename(root) + "/" + \
            base_dir + "/" + tail
    if kind == "decoy-rel-deep":
        # climbs above the root and then descends at least as far again:
        # fewer '..' than ordinary components, but the lowest point reached
        # is outside the root
        return (base_dir + "/" + "../" * (depth_from_root + 1) +
                "decoy/deep/er/" + tail)
    if kind == "decoy-abs-doubleslash":
        # POSIX: exactly two leading slashes are an own (implementation
        # defined) root; the kernel treats it like "/"
        return "//" + os.path.join(decoy, tail).lstrip("/")
    if kind == "decoy-abs-tripleslash":
        return "///" + os.path.join(decoy, tail).lstrip("/")
    if kind == "decoy-abs-backslash":
        return os.path.join(decoy, tail).replace("/", "\\")
    if kind == "decoy-rel-unicode":
        # characters which a compatibility normalisation (NFKC) folds to '.',
        # '..' or '/': ordinary names for the file system, i.e. an in-root
        # relative path -- unless somebody folds them after validation
        if spec["noise"]:
            return "..\uff0fdecoy\uff0f" + tail.replace("/", "\uff0f")
        dots = ["\uff0e\uff0e", "\u2025", ".\uff0e", "\u2024\u2024"][
            spec["ups"] % 4]
        return dots + "/decoy/" + tail
    if kind == "decoy-rel-via-link":
        # <base>/up is a symbolic link to the dataset root (a harmless link
        # inside the dataset): lexically "up/.." cancels out, physically it
        # is the parent of the root
        return base_dir + "/up/../decoy/" + tail
    ups = "../" * max(spec["ups"], 1)
    p = ups + "decoy/" + tail
    if kind == "decoy-rel-backslash":
        # alternate separator spelling (a single harmless component on POSIX)
        return (base_dir + "/" + p).replace("/", "\\")
    if kind == "decoy-rel-mixed-sep":
        return base_dir + "/" + p.replace("../", "..\\")
    if kind == "decoy-rel-noisy":
        for i, n in enumerate(spec["noise"]):
            p = n + p if i % 2 == 0 else p.replace("decoy/", "decoy/" + n, 1)
    return p


def rehash_up(root: Path, algos, rel_list: str, parents: dict):
    """After editing list file ``rel_list`` refresh the checksum recorded for
    it in its parent, and so on up to dataset_info.json."""
    from sedpack.io.utils import hash_checksums
    cur = rel_list
    while cur in parents:
        parent = parents[cur]
        digests = list(hash_checksums(root / cur, tuple(algos)))
        doc = json.loads((root / parent).read_text(encoding="utf-8"))
        if parent == "dataset_info.json":
            for sli in doc["splits"].values():
                if sli["shard_list_info_file"]["file_path"] == cur:
                    sli["shard_list_info_file"]["hash_checksums"] = digests
        else:
            for ch in doc.get("children_shard_lists", []):
                if ch["shard_list_info_file"]["file_path"] == cur:
                    ch["shard_list_info_file"]["hash_checksums"] = digests
        (root / parent).write_text(json.dumps(doc, indent=2),
                                   encoding="utf-8")
        cur = parent


def run_case(case, ctx):
    from sedpack.io import Dataset
    from sedpack.io.dataset_filler import DatasetFiller
    from props import iter_common
    fmt = case["fmt"]
    desc = dsops.simple_desc(fmt, "", 2, ["sha256"], payload=False)
    sandbox = env.scratch_dir("c17")
    outer = sandbox / "o1" / "o2" / "o3" / "o4"
    root = outer / "ds"
    decoy = outer / "decoy"
    try:
        outer.mkdir(parents=True)
        decoy.mkdir()
        ds = dsops.create_dataset(root, desc)
        dsops.filler_session(ds, desc, [["train", [0, 1, 2], None]])
        dsops.filler_session(ds, desc, [["train", [3, 4, 5], None]], "sub")
        sroot = str(root)
        point = case["point"]
        # ------------------------------------------------------- writer side
        if point == "filler-subdir":
            p = concrete_path(case["path"], "train", sroot, str(decoy), "w", 1)
            resolved = os.path.normpath(os.path.join(sroot, "train", p))
            escapes = not inside(sroot, resolved)
            before = {str(x) for x in sandbox.rglob("*")}
            err = None
            try:
                with DatasetFiller(ds, relative_path_from_split=Path(p)) as f:
                    for i in (10, 11, 12):
                        f.write_example(values=dsops.example_for(desc, i),
                                        split="train")
            except Exception as exc:  # pylint: disable=broad-except
                err = exc
            created = sorted({str(x) for x in sandbox.rglob("*")} - before)
            outside = [c for c in created if not inside(sroot, c)]
            extra = []
            if escapes and not resolved.startswith(str(sandbox)):
                # resolved somewhere else on the machine: look there too
                if os.path.exists(resolved) and resolved not in ("/",):
                    extra = [resolved]
            if outside:
                ctx.fail(
                    "writer-contained", ("writer-created-outside",
                                         escape_kind(p)),
                    f"relative_path_from_split={p!r} created {outside[:4]} "
                    f"outside the root {sroot} "
                    f"({'raised ' + repr(err) if err else 'no error'})")
            ctx.label("point=filler-subdir",
                      "escapes" if escapes else "inside",
                      "raised" if err else "accepted")
            if escapes:
                ctx.nontrivial(["filler-subdir", escape_kind(p), shape(p)])
            return
        # ------------------------------------------------------- reader side
        algos = desc["hashes"]
        parents = {
            "train/shards_list.json": "dataset_info.json",
            "train/sub/shards_list.json": "train/shards_list.json",
        }
        if point == "split-entry":
            host, old = "dataset_info.json", "train/shards_list.json"
            p = concrete_path(case["path"], "train", sroot, str(decoy),
                              "shards_list.json", 1)
        elif point == "self":
            host, old = "train/sub/shards_list.json", None
            p = concrete_path(case["path"], "train/sub", sroot, str(decoy),
                              "shards_list.json", 2)
        elif point == "child-entry":
            host, old = "train/shards_list.json", "train/sub/shards_list.json"
            p = concrete_path(case["path"], "train/sub", sroot, str(decoy),
                              "shards_list.json", 2)
        else:
            host = "train/sub/shards_list.json"
            doc0 = json.loads((root / host).read_text())
            old = doc0["shard_files"][0]["file_infos"][0]["file_path"]
            p = concrete_path(case["path"], "train/sub", sroot, str(decoy),
                              os.path.basename(old), 2)
        doc = json.loads((root / host).read_text(encoding="utf-8"))
        if point == "split-entry":
            doc["splits"]["train"]["shard_list_info_file"]["file_path"] = p
        elif point == "self":
            doc["relative_path_self"] = p
        elif point == "child-entry":
            doc["children_shard_lists"][0]["shard_list_info_file"][
                "file_path"] = p
        else:
            doc["shard_files"][0]["file_infos"][0]["file_path"] = p
        (root / host).write_text(json.dumps(doc, indent=2), encoding="utf-8")
        if host != "dataset_info.json":
            rehash_up(root, algos, host, parents)
        resolved = os.path.normpath(os.path.join(sroot, p))
        escapes = not inside(sroot, resolved)
        via_link = case["path"]["kind"] == "decoy-rel-via-link"
        if via_link:
            link_dir = root / ("train" if point == "split-entry" else
                               "train/sub")
            os.symlink(sroot, link_dir / "up")
        # where a reader that folds look-alike characters, or follows the
        # link, would end up: plant a copy there as well
        import unicodedata
        alt = os.path.normpath(os.path.join(
            sroot, unicodedata.normalize("NFKC", p)))
        if via_link:
            alt = os.path.realpath(os.path.join(sroot, p))
        if (old is not None and case["plant"] and alt != resolved and
                inside(str(sandbox), alt) and not inside(sroot, alt) and
                not os.path.exists(alt)):
            os.makedirs(os.path.dirname(alt), exist_ok=True)
            shutil.copyfile(root / old, alt)
        # plant a decoy copy where the path resolves to (inside the sandbox)
        planted = None
        if old is not None and case["plant"] and inside(str(sandbox), resolved) \
                and not os.path.exists(resolved) and resolved != sroot:
            try:
                os.makedirs(os.path.dirname(resolved), exist_ok=True)
                shutil.copyfile(root / old, resolved)
                planted = resolved
            except OSError:
                planted = None
        # observe
        outside_opens = []

        def hook(event, args):
            if event == "open" and args and isinstance(args[0], (str, bytes)):
                path = os.fsdecode(args[0])
                full = os.path.normpath(os.path.join(os.getcwd(), path))
                if via_link:
                    # the only case with a symbolic link in the sandbox
                    full = os.path.realpath(os.path.join(os.getcwd(), path))
                if inside(str(sandbox), full) and not inside(sroot, full):
                    outside_opens.append(full)
                elif escapes and full == resolved:
                    outside_opens.append(full)

        mon_dirs = [
            str(d) for d in [sandbox, sandbox / "o1", sandbox / "o1" / "o2",
                             sandbox / "o1" / "o2" / "o3", outer]
        ] + [str(d) for d, _, _ in os.walk(decoy)]
        mon = openmon.OpenMonitor([])
        for d in mon_dirs:
            mon.add_dir(d)
        sys.addaudithook(hook)
        raised = []
        iface2 = iter_common.resolve_iface(case["iface"], desc)
        try:
            try:
                d2 = Dataset(root)
            except Exception as exc:  # pylint: disable=broad-except
                raised.append(("open", exc))
                d2 = None
            if d2 is not None:
                try:
                    d2.check(show_progressbar=False)
                except Exception as exc:  # pylint: disable=broad-except
                    raised.append(("check", exc))
                for iface in ("sync", iface2):
                    try:
                        opts = {"shuffle": 0}
                        if dsops.iface_accepts(iface, "file_parallelism"):
                            opts["file_parallelism"] = 2
                        dsops.read_all(d2, "train", iface, **opts)
                    except BaseException as exc:  # pylint: disable=broad-except
                        if type(exc).__name__ in ("KeyboardInterrupt",
                                                  "SystemExit"):
                            raise
                        raised.append((iface, exc))
        finally:
            events = [
                pth for pth, m in mon.drain()
                if m & openmon.IN_OPEN and not m & openmon.IN_ISDIR
            ]
            mon.close()
        native_outside = [
            e for e in events if not inside(sroot, e) and os.path.isfile(e)
        ]
        what = (f"{point} := {p!r} (resolves to "
                f"{os.path.relpath(resolved, sroot)!r} relative to the root, "
                f"{'OUTSIDE' if escapes else 'inside'}; decoy planted: "
                f"{bool(planted)}) fmt={fmt} second interface {iface2}")
        if outside_opens or native_outside:
            ctx.fail(
                "reads-contained",
                ("read-outside-root", point, escape_kind(p)),
                f"{what}: files outside the root were opened: "
                f"{sorted(set(outside_opens + native_outside))[:4]}; errors: "
                f"{[(w, type(e).__name__) for w, e in raised]}")
        if escapes and not raised and point != "self":
            ctx.fail(
                "escape-rejected", ("escaping-metadata-accepted", point,
                                    escape_kind(p)),
                f"{what}: open, check and two full passes completed without "
                f"any error")
        if escapes and point == "self" and not raised:
            # relative_path_self is only used for writing; loading it must
            # still be refused
            ctx.fail("escape-rejected", ("escaping-metadata-accepted", point,
                                         escape_kind(p)),
                     f"{what}: loaded without any error")
        ctx.label("point=" + point, "escapes" if escapes else "inside",
                  "raised" if raised else "accepted")
        if escapes:
            ctx.nontrivial([point, escape_kind(p), shape(p), iface2])
    finally:
        dsops.rmtree(sandbox)


def escape_kind(p: str) -> str:
    has_dd = ".." in p.split("/")
    if p.startswith("/"):
        return "mixed" if has_dd else "absolute"
    return "dot-dot" if has_dd else "plain"


def shape(p: str) -> str:
    out = []
    for c in p.split("/"):
        out.append(c if c in ("", ".", "..") else "n")
    return "/".join(out)[:40]


# ------------------------------------------------------------------ symlinks
def strategy_symlink(tier):
    return st.fixed_dictionaries({
        "fmt": st.sampled_from(["fb", "npz"]),
        "level": st.sampled_from(["split-dir", "sub-dir", "list-file"]),
        "n": st.integers(1, 5),
        "outside_has_shards": st.booleans(),
        # the outside directory's name extends the root's name (ds -> ds_old):
        # string-prefix containment tests are fooled by that
        "prefix_sibling": st.booleans(),
    })


def run_symlink(case, ctx):
    """The resolved-path containment check when an existing list is loaded: a
    writer whose target directory (or list file) is a symbolic link leading
    outside the root must not read the outside shards_list.json (it would
    merge foreign metadata into this dataset)."""
    from sedpack.io.dataset_filler import DatasetFiller
    fmt = case["fmt"]
    desc = dsops.simple_desc(fmt, "", 2, ["sha256"], payload=False)
    sandbox = env.scratch_dir("c17s")
    try:
        root = sandbox / "outer" / "ds"
        outside = sandbox / "outer" / ("ds_old" if case.get("prefix_sibling")
                                       else "elsewhere")
        outside.mkdir(parents=True)
        ds = dsops.create_dataset(root, desc)
        dsops.filler_session(ds, desc, [["test", [0, 1, 2], None]])
        # a foreign dataset provides a valid list (and shards) outside
        other = dsops.create_dataset(sandbox / "outer" / "other", desc)
        level = case["level"]
        sub = None if level == "split-dir" else "sub"
        dsops.filler_session(other, desc,
                             [["train", [100, 101, 102], None]], sub)
        src_dir = sandbox / "outer" / "other" / "train" / (sub or "")
        if level == "split-dir":
            shutil.copytree(src_dir, outside / "t")
            os.symlink(outside / "t", root / "train")
            target_list = outside / "t" / "shards_list.json"
        elif level == "sub-dir":
            (root / "train").mkdir()
            shutil.copytree(src_dir, outside / "s")
            os.symlink(outside / "s", root / "train" / "sub")
            target_list = outside / "s" / "shards_list.json"
        else:
            (root / "train" / "sub").mkdir(parents=True)
            shutil.copyfile(src_dir / "shards_list.json",
                            outside / "shards_list.json")
            os.symlink(outside / "shards_list.json",
                       root / "train" / "sub" / "shards_list.json")
            target_list = outside / "shards_list.json"
        if not case["outside_has_shards"]:
            for f in outside.rglob("*." + fmt):
                f.unlink()
        real_target = os.path.realpath(target_list)
        reads = []

        def hook(event, args):
            if event == "open" and args and isinstance(args[0], (str, bytes)):
                if os.path.realpath(os.fsdecode(args[0])) == real_target:
                    mode = args[1] if len(args) > 1 else "r"
                    if not isinstance(mode, str) or not any(
                            c in mode for c in "wax"):
                        reads.append(os.fsdecode(args[0]))

        sys.addaudithook(hook)
        err = None
        try:
            filler = ds.filler() if sub is None else DatasetFiller(
                ds, relative_path_from_split=Path(sub))
            with filler as f:
                for i in range(10, 10 + case["n"]):
                    f.write_example(values=dsops.example_for(desc, i),
                                    split="train")
        except Exception as exc:  # pylint: disable=broad-except
            err = exc
        if reads:
            ctx.fail(
                "reads-contained", ("symlinked-list-read-outside-root", level),
                f"writer into a {level} that is a symbolic link leading "
                f"outside the root read {reads[0]!r} -> {real_target!r} "
                f"({'raised ' + repr(err) if err else 'no error'})")
        ctx.label("symlink:" + level, "raised" if err else "accepted")
        ctx.nontrivial(["symlink", level, fmt, case["n"],
                        case["outside_has_shards"],
                        bool(case.get("prefix_sibling"))])
    finally:
        dsops.rmtree(sandbox)


STAGES = [
    Stage(name="paths",
          run=run_case,
          strategy=strategy,
          examples={
              "quick": 2400,
              "thorough": 60000
          },
          fork=True,
          rust=True),
    Stage(name="symlink",
          run=run_symlink,
          strategy=strategy_symlink,
          examples={
              "quick": 160,
              "thorough": 1500
          },
          fork=True),
]
