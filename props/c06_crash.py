"""C06  A writer crash never corrupts or loses committed data.

A generated history prefix of 0..3 completed sessions is followed by ONE
crashing session (first or continued; root / sub-directory filler or
in-process multi-writer; fb, npz, tfrec; in a quarter of the histories the
writer program seeds the global random generators with the same constant
before every session) observed by the crash-state
snapshotter (vlib.fsfault): the directory is copied at every system-call
boundary (open/create, every os.write incl. generated partial writes, close,
rename/replace, mkdir, TFRecordWriter calls).  WITHIN one generated history
every boundary is visited, not sampled (level: fault_enumeration).
Oracle, for every distinct crash state:
 (1) every dataset_info.json / shards_list.json present parses, validates
     against the pydantic schema and is byte-identical to a complete content
     that some finished safe-update produced for that path or to its
     pre-session content ("old or new"); update_* temp files are ignored;
 (2) Dataset(path) opens; every shard reachable from it exists, its reference
     digests equal the recorded ones and it decodes to exactly
     number_of_examples examples;
 (3) iterating every split returns a multiset that contains all ids committed
     by earlier completed sessions and only ids committed or whose
     write_example call had STARTED before that boundary, each with exactly
     the content written for it (no torn or mixed example);
 (4) the same for a slow concurrent reader: description from state i, shard
     lists and shards from a later state j >= i.
check() is not required to pass in a crash state.
"""
from __future__ import annotations

import json
from collections import Counter
from pathlib import Path

from hypothesis import strategies as st

from vlib import dsops, env, fsfault, history, refhash
from vlib.core import Stage

ID = "C06"
LEVEL = "fault_enumeration"
RULE = ("Hypothesis histories (prefix of 0..3 completed sessions + one "
        "observed session); every system-call boundary and generated "
        "partial-write offset of the observed session is a crash point. A "
        "state is non-trivial if it differs from both the pre-session and "
        "the post-session state; distinct by content hash of the whole "
        "directory. Labels name the effect the boundary belongs to.")
ASSUMPTIONS = [
    "power-loss semantics (reordering without fsync) are outside the "
    "statement (operating system stays up)",
    "effects inside TensorFlow's C++ record writer are observed at the "
    "granularity of its Python methods",
    "real multi-process writers are C09's; here the multi-writer call runs "
    "in-process so that its effects are serialised",
]


@st.composite
def strategy_case(draw, tier):
    fmt = draw(st.sampled_from(["fb"] * 5 + ["npz"] * 4 + ["tfrec"]))
    comp = draw(st.sampled_from(dsops.COMPRESSIONS[fmt][:3]))
    eps = draw(st.integers(1, 3))
    desc = dsops.simple_desc(fmt, comp, eps,
                             draw(st.sampled_from([["sha256"], ["xxh64"],
                                                   ["md5", "xxh32"]])),
                             payload=True)
    prefix = draw(
        st.lists(st.one_of(
            history.st_filler_op(eps, metas=True, busy=True),
            history.st_multi_op(eps, single_process=True, metas=False,
                                busy=True)),
                 min_size=0,
                 max_size=3 if fmt != "tfrec" else 1))
    crash = draw(
        st.one_of(history.st_filler_op(eps, metas=True, busy=True),
                  history.st_filler_op(eps, metas=True, busy=True),
                  history.st_multi_op(eps, single_process=True, metas=False,
                                      busy=True)))
    if draw(st.integers(0, 3)) == 0:
        # a writer program which seeds the global random number generators
        # with a constant and is run once per session
        for op in prefix + [crash]:
            op["rseed"] = 0
    torn = draw(st.lists(st.integers(1, 600), min_size=0, max_size=4))
    return {"desc": desc, "prefix": prefix, "crash": crash, "torn": torn,
            "all_meta_offsets": tier == "thorough" and
            draw(st.integers(0, 3)) == 0}


def committed_ids(h) -> dict:
    return {s: [r["id"] for r in h.model[s]] for s in dsops.SPLITS}


def reachable_signature(info_dir: Path, base: Path):
    """Hash of everything a reader can reach: description (from info_dir),
    shard lists and listed shard files (from base).  None if the metadata
    cannot even be walked (then the full oracle speaks)."""
    import hashlib
    h = hashlib.sha1()
    try:
        info = (info_dir / "dataset_info.json").read_bytes()
        h.update(info)
        doc = json.loads(info)
        todo = [
            sli["shard_list_info_file"]["file_path"]
            for sli in doc.get("splits", {}).values()
        ]
        while todo:
            rel = todo.pop()
            data = (base / rel).read_bytes()
            h.update(rel.encode() + hashlib.sha1(data).digest())
            ldoc = json.loads(data)
            for sf in ldoc.get("shard_files", []):
                for fi in sf["file_infos"]:
                    f = base / fi["file_path"]
                    h.update(fi["file_path"].encode())
                    h.update(hashlib.sha1(f.read_bytes()).digest() if
                             f.is_file() else b"missing")
            for ch in ldoc.get("children_shard_lists", []):
                todo.append(ch["shard_list_info_file"]["file_path"])
    except Exception:  # pylint: disable=broad-except
        return None
    return h.hexdigest()


def check_state(ctx, desc, state_dir: Path, versions: dict, committed: dict,
                started: set, label: str, algos, list_dir: Path | None = None,
                cache: set | None = None):
    """Oracle clauses (1)-(3) on one crash state; with list_dir (a LATER
    state) it is the slow reader: description from state_dir, lists and shards
    from list_dir."""
    from sedpack.io import Dataset
    from sedpack.io.metadata import DatasetInfo
    from sedpack.io.shard_file_metadata import ShardsList
    slow = list_dir is not None
    tag = "slow-reader" if slow else "crash-state"
    what = f"{tag} at boundary '{label}'"
    # (1) metadata files are complete old-or-new documents
    if not slow:
        for p in state_dir.rglob("*.json"):
            rel = str(p.relative_to(state_dir))
            if Path(rel).name.startswith("update_"):
                continue
            data = p.read_bytes()
            try:
                doc = json.loads(data.decode("utf-8"))
                if Path(rel).name == "dataset_info.json":
                    DatasetInfo.model_validate(doc)
                else:
                    ShardsList.model_validate(doc)
            except Exception as exc:  # pylint: disable=broad-except
                ctx.fail(
                    "metadata-complete", ("metadata-file-invalid",
                                          fsfault._role(rel)),  # pylint: disable=protected-access
                    f"{what}: {rel} ({len(data)} bytes) is not a complete "
                    f"valid document: {type(exc).__name__}: "
                    f"{str(exc)[:200]}")
                return
            if data not in versions.get(rel, set()):
                ctx.fail(
                    "metadata-complete", ("metadata-file-neither-old-nor-new",
                                          fsfault._role(rel)),  # pylint: disable=protected-access
                    f"{what}: {rel} is none of the "
                    f"{len(versions.get(rel, ()))} complete versions ever "
                    f"committed for it")
                return
    # states whose reachable view (description, lists, listed shard files) is
    # byte-identical to one already judged need no second evaluation
    if cache is not None:
        sig = reachable_signature(state_dir, Path(list_dir) if slow else
                                  state_dir)
        if sig is not None:
            sig = (sig, frozenset(started) if slow else None)
            if sig in cache:
                ctx.count("reachable_view_cached")
                return
            cache.add(sig)
    # (2) open + reachable shards complete
    try:
        ds = Dataset(state_dir)
    except Exception as exc:  # pylint: disable=broad-except
        ctx.fail("opens", ("dataset-does-not-open", tag),
                 f"{what}: Dataset(path) raised {exc!r}")
        return
    if slow:
        ds.path = Path(list_dir)  # lists and shards are read later
    base = Path(list_dir) if slow else state_dir
    for split in dsops.SPLITS:
        want_min = Counter(committed[split])
        if split not in ds._dataset_info.splits:  # pylint: disable=protected-access
            if want_min:
                ctx.fail("committed-kept", ("committed-split-lost", tag),
                         f"{what}: split {split} with "
                         f"{sum(want_min.values())} committed examples is "
                         f"absent")
            continue
        try:
            infos = list(ds.shard_info_iterator(split))
        except Exception as exc:  # pylint: disable=broad-except
            ctx.fail("opens", ("shard-lists-unreadable", tag),
                     f"{what}: walking the shard lists of {split} raised "
                     f"{exc!r}")
            return
        for info in infos:
            rel = str(info.file_infos[0].file_path)
            f = base / rel
            if not f.is_file():
                ctx.fail("shards-complete", ("reachable-shard-missing", tag),
                         f"{what}: {rel} is listed but does not exist")
                return
            digests = tuple(refhash.ref_digests(algos, f.read_bytes()))
            if digests != tuple(info.file_infos[0].hash_checksums):
                ctx.fail(
                    "shards-complete", ("reachable-shard-checksum-mismatch",
                                        tag),
                    f"{what}: {rel} does not match its recorded checksums "
                    f"(partially written?)")
                return
            try:
                n = dsops.count_examples(f, desc)
            except Exception as exc:  # pylint: disable=broad-except
                ctx.fail("shards-complete", ("reachable-shard-undecodable",
                                             tag),
                         f"{what}: {rel} does not decode: {exc!r}")
                return
            if n != info.number_of_examples:
                ctx.fail("shards-complete", ("reachable-shard-count", tag),
                         f"{what}: {rel} holds {n}, records "
                         f"{info.number_of_examples}")
                return
        # (3) iteration
        if not infos:
            if want_min:
                ctx.fail("committed-kept", ("committed-examples-lost", tag),
                         f"{what}: {split} lists no shard")
            continue
        try:
            got = dsops.read_all(ds, split, "sync", shuffle=0)
        except Exception as exc:  # pylint: disable=broad-except
            ctx.fail("iterates", ("iteration-raised", tag),
                     f"{what}: iterating {split} raised {exc!r}")
            return
        # a second, parallel reader must see the same thing
        second = "rust" if dsops.interface_applicable("rust", desc) else \
            ("concurrent" if desc["fmt"] != "tfrec" else None)
        if second is not None:
            try:
                got2 = dsops.read_all(ds, split, second, shuffle=0,
                                      file_parallelism=2)
            except BaseException as exc:  # pylint: disable=broad-except
                if type(exc).__name__ in ("KeyboardInterrupt", "SystemExit"):
                    raise
                ctx.fail("iterates", ("iteration-raised", tag, second),
                         f"{what}: iterating {split} through {second} "
                         f"raised {exc!r}")
                return
            if [dsops.ex_id_of(e) for e in got2] != [
                    dsops.ex_id_of(e) for e in got
            ]:
                ctx.fail("whole-examples", ("readers-disagree", tag, second),
                         f"{what}: {second} and sync readers disagree on "
                         f"{split}")
                return
        ids = []
        for ex in got:
            if not dsops.example_matches(desc, ex):
                ctx.fail("whole-examples", ("torn-or-mixed-example", tag),
                         f"{what}: {split} yields an example that was never "
                         f"written in this form (id {dsops.ex_id_of(ex)})")
                return
            ids.append(dsops.ex_id_of(ex))
        c = Counter(ids)
        missing = want_min - c
        if missing:
            ctx.fail(
                "committed-kept", ("committed-examples-lost", tag),
                f"{what}: {split} lost committed examples "
                f"{sorted(missing.elements())[:10]}")
            return
        allowed = want_min + Counter(i for i in started)
        extra = c - allowed
        dup = [i for i, k in c.items() if k > 1]
        if extra or dup:
            ctx.fail(
                "whole-examples", ("unwritten-or-duplicated-example", tag),
                f"{what}: {split} yields ids never started "
                f"{sorted(extra.elements())[:10]} / duplicated {dup[:10]}")
            return


def run_case(case, ctx):
    desc = case["desc"]
    algos = desc["hashes"]
    root = env.scratch_dir("c06")
    try:
        h = history.History(root / "ds", desc)
        for op in case["prefix"]:
            try:
                h.apply(op)
            except history.SessionFailed as exc:
                ctx.label("aborted_history:" + type(exc.exc).__name__)
                return
        committed = committed_ids(h)
        snap = fsfault.Snapshotter(h.root, root / "snap", case["torn"],
                                   case.get("all_meta_offsets", False))
        # pre-session contents are legitimate "old" versions
        for p in h.root.rglob("*.json"):
            snap.record_version(str(p.relative_to(h.root)), p.read_bytes())
        dsops.ON_WRITE = snap.started.add
        snap.install()
        failed = None
        try:
            snap.snapshot("pre-session")
            try:
                h.apply(case["crash"])
            except history.SessionFailed as exc:
                failed = exc
            snap.snapshot("post-session")
        finally:
            snap.uninstall()
            dsops.ON_WRITE = None
        snap.raise_if_failed()
        if failed is not None:
            ctx.label("observed-session-raised:" +
                      type(failed.exc).__name__)
            return  # C08's business
        keys = snap.order
        pre, post = keys[0], keys[-1]
        cache: set = set()
        for key in keys:
            st_ = snap.states[key]
            check_state(ctx, desc, Path(st_["dir"]), snap.versions, committed,
                        st_["started"], st_["label"], algos, cache=cache)
            ctx.count("states")
            ctx.evaluated()
            ctx.label("at:" + st_["label"])
            if key not in (pre, post):
                ctx.nontrivial(key)
        # slow reader: description from state i, lists + shards from j >= i
        n = len(keys)
        pairs = set()
        for i in range(0, n, max(1, n // 12)):
            pairs.add((i, min(n - 1, i + 1)))
            pairs.add((i, n - 1))
            pairs.add((i, min(n - 1, i + max(2, n // 3))))
        for i, j in sorted(pairs):
            if j <= i:
                continue
            si, sj = snap.states[keys[i]], snap.states[keys[j]]
            check_state(ctx, desc, Path(si["dir"]), snap.versions, committed,
                        sj["started"], f"{si['label']} -> {sj['label']}",
                        algos, list_dir=Path(sj["dir"]), cache=cache)
            ctx.count("slow_reader_pairs")
            ctx.evaluated()
        ctx.count("boundaries", snap.boundary)
        ctx.label("fmt=" + desc["fmt"],
                  "crash=" + case["crash"]["k"],
                  f"prefix={len(case['prefix'])}")
    finally:
        dsops.rmtree(root)


# ---------------------------------------------------- instrument validation
def _deterministic_names():
    """uuid4 / time.time as counters: two runs produce the same file names."""
    import time as _time
    import uuid as _uuid
    state = {"u": 0, "t": 1_700_000_000.0}

    def uuid4():
        state["u"] += 1
        return _uuid.UUID(int=(0xabc0 << 96) + state["u"])

    def now():
        state["t"] += 0.001
        return state["t"]

    _uuid.uuid4 = uuid4
    _time.time = now
    # any other name source the library might use
    import random as _random
    import numpy as _np
    _random.seed(424242)
    _np.random.seed(424242)


def _digest(root) -> dict:
    """tree digest without in-flight temp files (snapshots do not keep them)"""
    return {
        k: v for k, v in dsops.tree_digest(root).items()
        if not Path(k).name.startswith("update_")
    }


def _observed_run(args):
    """(grand)child: run the observed session on a private copy."""
    from sedpack.io import Dataset
    case, src, work, kill_at, observe = args
    import shutil
    _deterministic_names()
    shutil.copytree(src, work / "ds")
    h = history.History.__new__(history.History)
    h.root = work / "ds"
    h.desc = case["desc"]
    h.ds = Dataset(h.root)
    h.model = {s: [] for s in dsops.SPLITS}
    h.calls = {s: [] for s in dsops.SPLITS}
    h.dirs = list(case.get("_dirs", []))
    h.session_no = 50
    h.sessions = []
    h.new_dir_counter = 50
    h.results = None
    if not observe:
        h.apply(case["crash"])
        return {"final": _digest(h.root)}
    snap = fsfault.Snapshotter(h.root, work / "snap", case["torn"], False)
    snap.kill_at = kill_at
    snap.install()
    try:
        snap.snapshot("pre-session")
        h.apply(case["crash"])
        snap.snapshot("post-session")
    finally:
        snap.uninstall()
    digests = {}
    for b, key in snap.boundary_keys.items():
        digests[b] = _digest(Path(snap.states[key]["dir"]))
    return {"final": _digest(h.root), "by_boundary": digests,
            "boundaries": snap.boundary}


def run_killcheck(case, ctx):
    """The snapshot taken at boundary b must equal, byte for byte, the
    directory left behind by a process that really dies (SIGKILL) at b; and
    the interposed run must end in the same state as an uninstrumented run.
    A mismatch is a defect of the INSTRUMENT (harness error), never a
    property violation."""
    import os
    import signal
    from vlib import forkrun
    desc = case["desc"]
    root = env.scratch_dir("c06k")
    try:
        h = history.History(root / "base" / "ds", desc)
        for op in case["prefix"]:
            try:
                h.apply(op)
            except history.SessionFailed:
                return
        case = dict(case, _dirs=list(h.dirs))
        src = h.root
        (root / "r0").mkdir()
        (root / "r1").mkdir()
        plain = forkrun.run_in_child(_observed_run,
                                     (case, src, root / "r0", None, False),
                                     timeout=300)
        obs = forkrun.run_in_child(_observed_run,
                                   (case, src, root / "r1", None, True),
                                   timeout=600)
        if plain["final"] != obs["final"]:
            raise RuntimeError(
                "instrument: interposed run ends in a different state than "
                "the uninstrumented run: " + str(
                    sorted(set(plain["final"].items()) ^ set(obs["final"].items()))[:6]))
        nb = obs["boundaries"]
        for frac in case["kill_fracs"]:
            b = 1 + (frac * (nb - 1)) // 1000
            work = root / f"k{b}"
            if work.exists():
                continue
            work.mkdir()
            try:
                forkrun.run_in_child(_observed_run,
                                     (case, src, work, b, True), timeout=600)
                raise RuntimeError(f"instrument: kill at boundary {b} of "
                                   f"{nb} did not kill")
            except forkrun.ChildDied as died:
                if not (os.WIFSIGNALED(died.status) and
                        os.WTERMSIG(died.status) == signal.SIGKILL):
                    raise RuntimeError(
                        f"instrument: child died with status {died.status}"
                    ) from died
            left = _digest(work / "ds")
            if left != obs["by_boundary"][b]:
                diff = sorted(set(left.items()) ^ set(
                    obs["by_boundary"][b].items()))[:6]
                raise RuntimeError(
                    f"instrument: directory after SIGKILL at boundary {b} "
                    f"differs from the snapshot: {diff}")
            ctx.count("kill_points_validated")
            ctx.evaluated()
            ctx.nontrivial(["kill", desc["fmt"], case["crash"]["k"], b, nb])
        ctx.label("killcheck", "fmt=" + desc["fmt"])
    finally:
        dsops.rmtree(root)


@st.composite
def strategy_killcheck(draw, tier):
    case = draw(strategy_case(tier))
    case["kill_fracs"] = draw(
        st.lists(st.integers(0, 1000), min_size=3, max_size=8))
    case["all_meta_offsets"] = False
    return case


STAGES = [
    Stage(name="crash",
          run=run_case,
          strategy=lambda tier: strategy_case(tier),
          examples={
              "quick": 96,
              "thorough": 1200
          },
          fork=True,
          rust=True,
          timeout=900),
    Stage(name="killcheck",
          run=run_killcheck,
          strategy=lambda tier: strategy_killcheck(tier),
          examples={
              "quick": 16,
              "thorough": 200
          },
          fork=True,
          timeout=1800),
]
