"""C04  Shard-list metadata always accounts exactly for what is stored.

Domain: histories of completed sessions (root / new / reused / nested /
ancestor sub-directory fillers, multi-writer calls in-process and with real
worker processes, any splits, handle kept or reopened), fb/npz/tfrec.
Oracle: after EVERY completed session an independent plain-json walk of the
metadata files plus one-file-at-a-time decoding of every shard must satisfy
the exactness clauses of the statement (vlib.oracles.exactness_walk), and the
writing handle's in-memory description must equal a fresh open.
"""
from __future__ import annotations

from props import hist_common
from vlib import oracles
from vlib.core import Stage

ID = "C04"
LEVEL = "exploration"
RULE = ("Hypothesis op-lists of 1..5 (thorough 7) sessions over {root, new, "
        "reused, nested, ancestor sub-directory filler; multi-writer 1..4 "
        "writers single/multi-process} x reopen-or-keep x per-run counts "
        "0..3*eps+1; invariant evaluated after every session. Non-trivial: "
        ">= 2 completed sessions of which one is a sub-directory or "
        "multi-writer session that wrote something. Distinct by the sequence "
        "of (kind, directory relation, splits, reopened, min(written,3)).")
ASSUMPTIONS = [
    "json module and the harness' FlatBuffers walker / numpy / TF single-file "
    "decoders are correct",
    "a session that raises ends the history; that failure is reported by C08",
]


def strategy(tier):
    return hist_common.st_history_case(tier, tfrec_weight=1, var_attr=True)


def run_case(case, ctx):
    state = {"walks": 0, "depth": 0}

    def after(h, info):
        res = oracles.exactness_walk(h.root, h.desc, ctx, handle=h.ds)
        state["walks"] += 1
        state["depth"] = max(state["depth"], res["depth"])
        want = sum(len(v) for v in h.model.values())
        if res["decoded_total"] != want:
            ctx.fail("split-total", ("decoded-total-vs-written",),
                     f"shards hold {res['decoded_total']} examples, "
                     f"{want} were written")

    h = hist_common.run_history(case, ctx, after, prefix="c04")
    hist_common.history_labels(h, ctx)
    ctx.count("walks", state["walks"])
    ctx.label(f"tree_depth={state['depth']}")
    if hist_common.history_nontrivial(h):
        ctx.nontrivial(h.fingerprint())


STAGES = [
    Stage(name="history",
          run=run_case,
          strategy=strategy,
          examples={
              "quick": 500,
              "thorough": 24000
          },
          fork=True)
]
