"""C12  Shard selection options mean the same thing in every interface.

Dataset: generated history with shard-level metadata groups.  Reads: option in
{shards=k (1..S+2), shard_filter from a predicate family selecting none/some/
all, custom_metadata_type_limit=n (1..max group+1), combinations} x every
interface that has the parameter x shuffle in {0, >0}.
Oracle: a reference selection written from the doc-string (filter -> error if
nothing left -> first k -> first n per distinct metadata value, in shard-list
order) applied to the harness' plain-json walk; expected examples = decoded
contents of exactly the selected shard files (sequence when unshuffled,
multiset otherwise); an empty selection must raise instead of yielding an
empty pass.
"""
from __future__ import annotations

from collections import Counter
from pathlib import Path

from hypothesis import strategies as st

from props import iter_common
from vlib import dsops, history, oracles
from vlib.core import Stage, hang_is_violation

ID = "C12"
LEVEL = "exploration"
RULE = ("Hypothesis histories with metadata runs (eps 1..3 so that many "
        "shards exist) x 3..8 reads (interface, split, shards k rel. S, "
        "predicate, per-metadata limit n, shuffle). Non-trivial: the options "
        "remove at least one shard but not all. Distinct by (interface, "
        "format, option kinds, |selected|, S, shuffled).")
ASSUMPTIONS = [
    "group identity for custom_metadata_type_limit = the sorted item tuple of "
    "the metadata dict (scalar values only, as the doc-string requires)",
]

PREDS = ["all", "none", "group0", "group1", "group2", "nometa", "full",
         "parity"]


def harness_pred(name: str, eps: int):

    def f(sh: dict) -> bool:
        meta, n, stem = sh["meta"], sh["n"], Path(sh["files"][0]).stem
        return _pred(name, eps, meta, n, stem)

    return f


def sedpack_pred(name: str, eps: int):

    def f(shard_info) -> bool:
        return _pred(name, eps, shard_info.custom_metadata,
                     shard_info.number_of_examples,
                     shard_info.file_infos[0].file_path.stem)

    return f


def _pred(name, eps, meta, n, stem) -> bool:
    if name == "all":
        return True
    if name == "none":
        return False
    if name.startswith("group"):
        return meta == history.META_VALUES[int(name[5:])]
    if name == "nometa":
        return not meta
    if name == "full":
        return n == eps
    if name == "parity":
        return int(stem[-1], 16) % 2 == 0
    raise ValueError(name)


@st.composite
def strategy_case(draw, tier):
    desc = draw(iter_common.st_iter_desc(tier, eps=st.integers(1, 3)))
    ops = draw(
        history.st_ops(desc["eps"],
                       max_ops=3 if desc["fmt"] != "tfrec" else 2,
                       multi=True,
                       metas=True,
                       busy=True,
                       single_process=True))
    reads = draw(
        st.lists(st.fixed_dictionaries({
            "iface": st.integers(0, 9),
            "split": st.integers(0, 2),
            "k": st.one_of(st.none(), st.sampled_from([["abs", 1], ["abs", 2],
                                                       ["S", -1], ["S", 0],
                                                       ["S", 1], ["S", 2],
                                                       ["abs", 3]])),
            "pred": st.one_of(st.none(), st.sampled_from(PREDS)),
            "limit": st.one_of(st.none(), st.integers(1, 4)),
            "shuffle": st.sampled_from([0, 0, 3, 50]),
            "epochs": st.sampled_from([None, None, None, 2, 3]),
            "two_pipelines": st.booleans(),
        }),
                 min_size=3,
                 max_size=8))
    return {"desc": desc, "ops": ops, "reads": reads}


def reference_selection(shards, pred, k, limit):
    """The documented semantics, on plain-json shard records."""
    sel = list(shards)
    if pred is not None:
        sel = [s for s in sel if pred(s)]
    if not sel:
        return None  # error expected
    if k:
        sel = sel[:k]
    if limit:
        counts = Counter()
        out = []
        for s in sel:
            key = tuple(sorted((str(a), repr(b)) for a, b in s["meta"].items()))
            counts[key] += 1
            if counts[key] <= limit:
                out.append(s)
        sel = out
    return sel


def run_case(case, ctx):
    b = iter_common.BuiltDataset(case, ctx, "c12")
    try:
        if not b.ok:
            return
        desc, eps = b.desc, b.desc["eps"]
        ctx.label("fmt=" + desc["fmt"])
        for r in case["reads"]:
            split = b.split_for(r["split"])
            shards = b.shards[split]
            s_total = len(shards)
            only = ("sync", "concurrent", "tfdata") if r["limit"] else None
            iface = iter_common.resolve_iface(r["iface"], desc, only)
            k = None
            if r["k"] is not None:
                k = max(1, r["k"][1] if r["k"][0] == "abs" else
                        s_total + r["k"][1])
            opts = {"repeat": False, "shuffle": r["shuffle"]}
            if dsops.iface_accepts(iface, "file_parallelism"):
                opts["file_parallelism"] = 2
            if k is not None:
                opts["shards"] = k
            if r["pred"] is not None:
                opts["shard_filter"] = sedpack_pred(r["pred"], eps)
            if r["limit"] is not None:
                opts["custom_metadata_type_limit"] = r["limit"]
            sel = reference_selection(
                shards,
                harness_pred(r["pred"], eps) if r["pred"] else None, k,
                r["limit"])
            kinds = [
                n for n, v in (("k", k), ("pred", r["pred"]),
                               ("limit", r["limit"])) if v is not None
            ]
            what = (f"{iface} split={split} S={s_total} shards={k} "
                    f"filter={r['pred']} limit={r['limit']} "
                    f"shuffle={r['shuffle']} fmt={desc['fmt']}")
            epochs = r.get("epochs")
            try:
                if iface == "tfdata" and r.get("two_pipelines") and not epochs:
                    # pipelines are often built up front (train + validation)
                    # and iterated later: the first one must keep ITS selection
                    first, bs = dsops.tfdata_object(b.h.ds, split, **opts)
                    dsops.tfdata_object(b.h.ds, split, repeat=False,
                                        shuffle=0, shards=1)
                    got = dsops.iterate_tfdata_object(first, bs)
                elif epochs and sel:
                    # the selection also holds in every later epoch of a
                    # repeating stream
                    n_sel = sum(s["n"] for s in sel)
                    got = dsops.read_prefix(b.h.ds, split, iface,
                                            epochs * n_sel,
                                            **{**opts, "repeat": True})
                else:
                    got = dsops.read_all(b.h.ds, split, iface, **opts)
                raised = None
            except Exception as exc:  # pylint: disable=broad-except
                got, raised = None, exc
            ctx.count("reads")
            ctx.evaluated()
            ctx.label("iface=" + iface, "opts=" + "+".join(kinds or ["none"]))
            if sel is None:
                if raised is None:
                    ctx.fail(
                        "empty-selection-raises", ("empty-selection-no-error",
                                                   iface),
                        f"{what}: the filter matches no shard but the pass "
                        f"ended normally with {len(got)} examples")
                ctx.label("empty-selection")
                continue
            if raised is not None:
                ctx.fail("selection", ("unexpected-error", iface,
                                       type(raised).__name__),
                         f"{what}: raised {raised!r} although "
                         f"{len(sel)} shards are selected")
            want = []
            for sh in sel:
                want.extend(
                    dsops.ex_id_of(e)
                    for e in dsops.decode_shard(b.h.root / sh["files"][0], desc))
            ids = [dsops.ex_id_of(e) for e in got]
            if epochs and sel:
                if r["shuffle"] == 0:
                    ok = ids == want * epochs
                else:
                    # shuffled + repeating: only membership is defined
                    ok = set(ids) <= set(want) and len(ids) == len(want) * epochs
            elif r["shuffle"] == 0:
                ok = ids == want
            else:
                ok = Counter(ids) == Counter(want)
            if not ok:
                ctx.fail(
                    "selection",
                    ("selection-mismatch", iface, "+".join(kinds or ["none"])),
                    f"{what}: selected shards {[Path(s['files'][0]).name[:8] for s in sel]} "
                    f"of {s_total}; epochs={epochs}; " +
                    oracles.multiset_diff(ids, want * (epochs or 1)) +
                    (f" order got {ids[:10]} want {want[:10]}"
                     if r["shuffle"] == 0 else ""))
            if 0 < len(sel) < s_total:
                ctx.nontrivial([
                    iface, desc["fmt"], kinds,
                    len(sel), s_total, r["shuffle"] > 0
                ])
    finally:
        b.cleanup()


STAGES = [
    Stage(name="selection",
          run=run_case,
          strategy=lambda tier: strategy_case(tier),
          examples={
              "quick": 400,
              "thorough": 8000
          },
          fork=True,
          rust=True,
          timeout=150,
          timeout_violation=hang_is_violation(
              "selection", "a pass over a selection of shards"))
]
