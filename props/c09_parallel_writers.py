"""C09  Parallel writers do not interfere.

Writer lists (1..5 writers, one case in twelve more writers than the machine
has processors: cpu_count+1..+4; uneven loads 0..3*eps+2, several splits per
writer, empty writers, refused writes caught inside the writer function --
also as a writer's only attempt for a split --, generated per-example delays so that relative speeds
differ and workers overlap) run through Dataset.write_multiprocessing with
real worker processes (single_process=False); fb / npz, tfrec at low weight.
Oracle: differential against the SAME writers run with single_process=True on
a fresh dataset -- per split equal id multisets, every writer's ids in its own
write order, return values equal and in argument order -- plus the exactness
walk (C04's oracle) and check() on the parallel result.  Interference: every
effect (open for writing, replace) is logged with the pid that performed it by
wrappers inherited through fork; every file is written by exactly one
process, every file written while a worker runs writer w lies under that
writer's own <split>/<dir_w>/ directory (one dir_w per writer, all distinct),
and only the parent writes <root>/dataset_info.json and <split>/shards_list.json.
Structural twin that also covers TFRecord's C++ writer: every writer's
examples are stored under exactly one sub-directory and no sub-directory
holds examples of two writers.
"""
from __future__ import annotations

import builtins
import io
import os
import time
from collections import Counter, defaultdict
from pathlib import Path

from hypothesis import strategies as st

from vlib import dsops, env, history, oracles
from vlib.core import Stage, hang_is_violation

ID = "C09"
LEVEL = "exploration"
RULE = ("Hypothesis writer lists; each case runs the real multi-process call "
        "and the in-process reference. Non-trivial: >= 2 non-empty writers "
        "whose [begin,end] intervals (from the effect log, CLOCK_MONOTONIC) "
        "overlapped in time. Distinct by (loads per writer and split, "
        "delays, overlap pattern, format).")
ASSUMPTIONS = [
    "the OS schedules the worker processes; delays perturb, they do not "
    "enumerate schedules -- the structural clause (disjoint write sets) is "
    "what makes the result schedule-independent and it is checked every run",
    "effects of TensorFlow's C++ TFRecordWriter are not attributed to pids; "
    "the structural twin covers them",
]


@st.composite
def strategy_case(draw, tier):
    fmt = draw(st.sampled_from(["fb"] * 5 + ["npz"] * 4 + ["tfrec"]))
    eps = draw(st.integers(1, 4))
    desc = dsops.simple_desc(fmt, draw(st.sampled_from(
        dsops.COMPRESSIONS[fmt][:2])), eps, ["sha256"], payload=True)
    if draw(st.integers(0, 11)) == 0:
        # more writers than processors (pool sizes are derived from the
        # processor count)
        n_writers = (os.cpu_count() or 4) + draw(st.integers(1, 4))
    else:
        n_writers = draw(st.integers(1, 5))
    writers = []
    for _ in range(n_writers):
        runs = draw(
            st.lists(st.tuples(st.integers(0, 2),
                               st.integers(0, 3 * eps + 2),
                               st.just(0),
                               # a refused write (caught by the writer
                               # function) at that position of the run
                               st.one_of(st.none(), st.none(), st.none(),
                                         st.integers(0, 12))).map(list),
                     min_size=0,
                     max_size=3))
        writers.append(runs)
    delays = draw(
        st.lists(st.sampled_from([0, 0, 200, 1000, 2000]),
                 min_size=n_writers,
                 max_size=n_writers))
    prior = draw(st.sampled_from([False, "filler", "multi", "multi"]))
    return {"desc": desc, "writers": writers, "delays_us": delays,
            "prior": prior}


# ---------------------------------------------------------------- effect log
_LOG = {"fd": None}


def _log(op: str, path) -> None:
    fd = _LOG["fd"]
    if fd is None:
        return
    try:
        p = os.path.abspath(os.fsdecode(path))
    except TypeError:
        return
    os.write(fd, f"{os.getpid()}\t{time.monotonic():.6f}\t{op}\t{p}\n".encode())


def install_effect_log(path: str) -> None:
    _LOG["fd"] = os.open(path, os.O_WRONLY | os.O_APPEND | os.O_CREAT, 0o644)
    real_open = builtins.open
    real_replace, real_rename = os.replace, os.rename

    def open_(file, mode="r", *a, **k):
        if isinstance(file, (str, bytes, os.PathLike)) and any(
                c in mode for c in "wax+"):
            _log("open-w", file)
        return real_open(file, mode, *a, **k)

    def replace_(src, dst, *a, **k):
        _log("replace", dst)
        return real_replace(src, dst, *a, **k)

    def rename_(src, dst, *a, **k):
        _log("replace", dst)
        return real_rename(src, dst, *a, **k)

    builtins.open = open_
    io.open = open_
    os.replace = replace_
    os.rename = rename_


def feed_writer_logged(dataset_filler, spec: dict):
    _log("begin", f"/writer/{spec['writer']}")
    try:
        with dataset_filler as ctx:
            dsops.write_runs(ctx, spec["desc"], spec["runs"],
                             spec.get("delay_s", 0.0))
    finally:
        _log("end", f"/writer/{spec['writer']}")
    return {"writer": spec["writer"],
            "n": sum(len(r[1]) for r in spec["runs"])}


def run_case(case, ctx):
    from sedpack.io import Dataset
    desc = case["desc"]
    fmt = desc["fmt"]
    root = env.scratch_dir("c09")
    try:
        # concrete writers (ids encode the writer)
        specs = []
        model = defaultdict(list)
        for w, runs in enumerate(case["writers"]):
            seq = 0
            concrete = []
            for run in runs:
                split_idx, n = run[0], run[1]
                bad_at = run[3] if len(run) > 3 else None
                split = dsops.SPLITS[split_idx]
                ids = [w * 10_000 + seq + i for i in range(n)]
                seq += n
                concrete.append([split, ids, None, bad_at])
                model[split].extend(ids)
            specs.append({
                "desc": desc,
                "runs": concrete,
                "writer": w,
                "delay_s": case["delays_us"][w] / 1e6
            })

        def build(path, single_process, logged):
            ds = dsops.create_dataset(path, desc)
            if case["prior"] == "multi":
                # an earlier multi-writer call on the same dataset
                ds.write_multiprocessing(
                    feed_writer=dsops.feed_writer,
                    custom_arguments=[({"desc": desc, "writer": 90,
                                        "runs": [["train", [900_001], None]]},),
                                      ({"desc": desc, "writer": 91,
                                        "runs": [["train", [900_002], None]]},)],
                    consistency_check=False,
                    single_process=True)
            elif case["prior"]:
                dsops.filler_session(ds, desc,
                                     [["train", [900_001, 900_002], None]])
            res = ds.write_multiprocessing(
                feed_writer=feed_writer_logged if logged else dsops.feed_writer,
                custom_arguments=[(s,) for s in specs],
                consistency_check=False,
                single_process=single_process)
            return ds, res

        logpath = str(root / "effects.log")
        install_effect_log(logpath)
        try:
            ds_a, res_a = build(root / "A", False, True)
        except Exception as exc:  # pylint: disable=broad-except
            ctx.fail("equivalent", ("parallel-call-raised",
                                    type(exc).__name__),
                     f"write_multiprocessing(single_process=False) raised "
                     f"{exc!r} for loads "
                     f"{[[(r[0], len(r[1])) for r in s['runs']] for s in specs]}")
            return
        finally:
            os.close(_LOG["fd"])
            _LOG["fd"] = None
        ds_b, res_b = build(root / "B", True, False)
        what = (f"fmt={fmt} eps={desc['eps']} loads="
                f"{[[(r[0][:2], len(r[1])) for r in s['runs']] for s in specs]}"
                f" delays_us={case['delays_us']}")
        # 1. return values
        want_res = [{"writer": w, "n": sum(len(r[1]) for r in s["runs"])}
                    for w, s in enumerate(specs)]
        if res_a != want_res:
            ctx.fail("results-in-order", ("results-differ",),
                     f"{what}: returned {res_a}, expected {want_res}")
        if res_a != res_b:
            ctx.fail("results-in-order", ("results-differ-from-sequential",),
                     f"{what}: parallel {res_a} sequential {res_b}")
        # 2. content vs sequential run
        for split in dsops.SPLITS:
            prior_ids = [900_001, 900_002] if (case["prior"] and
                                               split == "train") else []
            want = model[split] + prior_ids
            if not want:
                continue
            try:
                got_a = oracles.read_ids_checked(Dataset(root / "A"), desc,
                                                 split, ctx, "equivalent")
            except Exception as exc:  # pylint: disable=broad-except
                from vlib.core import Violation
                if isinstance(exc, Violation):
                    raise
                ctx.fail(
                    "equivalent", ("parallel-result-unreadable",
                                   type(exc).__name__),
                    f"{what}: {len(want)} examples were written to {split} "
                    f"but reading it back raised {exc!r}")
                continue
            try:
                got_b = oracles.read_ids_checked(Dataset(root / "B"), desc,
                                                 split, ctx, "equivalent")
            except Exception as exc:  # pylint: disable=broad-except
                from vlib.core import Violation
                if isinstance(exc, Violation):
                    raise
                got_b = None  # the in-process reference itself is broken
                ctx.label("reference-run-unreadable")
            if got_b is None:
                got_b = want
            if Counter(got_a) != Counter(got_b) or Counter(got_a) != Counter(
                    want):
                ctx.fail(
                    "equivalent", ("multiset-differs-from-sequential",),
                    f"{what}: split {split}: parallel vs written " +
                    oracles.multiset_diff(got_a, want) +
                    "; sequential vs written " +
                    oracles.multiset_diff(got_b, want))
            last = {}
            for i in got_a:
                w = i // 10_000
                if w in last and last[w] > i:
                    ctx.fail("equivalent", ("writer-order-violated",),
                             f"{what}: split {split}: {got_a}")
                last[w] = i
        # 3. exact metadata + integrity
        oracles.exactness_walk(root / "A", desc, ctx, handle=ds_a)
        try:
            Dataset(root / "A").check(show_progressbar=False)
        except Exception as exc:  # pylint: disable=broad-except
            ctx.fail("equivalent", ("check-fails-after-parallel-write",),
                     f"{what}: {exc!r}")
        # 4a. structural non-interference
        tree = dsops.walk_dataset(root / "A")
        dir_writers = defaultdict(set)
        writer_dirs = defaultdict(set)
        for split, entry in tree["splits"].items():
            for sh in dsops.shards_in_order(entry["node"]):
                rel = sh["files"][0]
                parts = Path(rel).parts
                sub = parts[1] if len(parts) > 2 else "."
                for ex in dsops.decode_shard(root / "A" / rel, desc):
                    i = dsops.ex_id_of(ex)
                    if i >= 900_000:
                        continue
                    dir_writers[sub].add(i // 10_000)
                    writer_dirs[i // 10_000].add(sub)
        for sub, ws in dir_writers.items():
            if len(ws) > 1 or sub == ".":
                ctx.fail("no-shared-files", ("directory-shared-by-writers",),
                         f"{what}: sub-directory {sub!r} holds examples of "
                         f"writers {sorted(ws)}")
        for w, subs in writer_dirs.items():
            if len(subs) > 1:
                ctx.fail("no-shared-files", ("writer-spread-over-directories",),
                         f"{what}: writer {w} wrote into {sorted(subs)}")
        # 4b. effect log
        lines = [
            l.split("\t") for l in Path(logpath).read_text().splitlines() if l
        ]
        me = str(os.getpid())
        current = {}  # pid -> writer
        intervals = {}
        file_pids = defaultdict(set)
        a_root = str(root / "A")
        for pid, ts, op, p in lines:
            if op == "begin":
                w = int(p.rsplit("/", 1)[1])
                current[pid] = w
                intervals[w] = [float(ts), None]
                continue
            if op == "end":
                w = int(p.rsplit("/", 1)[1])
                intervals[w][1] = float(ts)
                current.pop(pid, None)
                continue
            if not p.startswith(a_root + "/"):
                continue
            rel = p[len(a_root) + 1:]
            parts = Path(rel).parts
            if pid == me:
                w = None
            else:
                w = current.get(pid, "idle")
            name = parts[-1]
            is_tmp = name.startswith("update_")
            key = rel if not is_tmp else rel  # temp files are unique names
            if w is not None:
                file_pids[key].add(pid)  # the parent may rewrite worker lists
            if w is not None:
                # a worker effect
                if len(parts) < 3:
                    ctx.fail(
                        "no-shared-files", ("worker-wrote-above-its-directory",),
                        f"{what}: worker pid {pid} (writer {w}) {op} {rel}")
                sub = parts[1]
                writer_dirs.setdefault(("log", w), set()).add(sub)
        for key, pids in file_pids.items():
            if len(pids) > 1:
                ctx.fail("no-shared-files", ("file-written-by-two-workers",),
                         f"{what}: {key} written by worker pids "
                         f"{sorted(pids)}")
        log_dirs = {k[1]: v for k, v in writer_dirs.items()
                    if isinstance(k, tuple)}
        for w, subs in log_dirs.items():
            if len(subs) > 1:
                ctx.fail("no-shared-files", ("writer-spread-over-directories",),
                         f"{what}: writer {w} performed effects in "
                         f"{sorted(subs)}")
        seen = {}
        for w, subs in log_dirs.items():
            for sub in subs:
                if sub in seen and seen[sub] != w:
                    ctx.fail("no-shared-files",
                             ("directory-shared-by-writers",),
                             f"{what}: {sub} used by writers {seen[sub]}, {w}")
                seen[sub] = w
        # overlap measurement
        busy = [w for w, s in enumerate(specs)
                if sum(len(r[1]) for r in s["runs"]) > 0 and w in intervals and
                intervals[w][1] is not None]
        overlaps = 0
        for i, a in enumerate(busy):
            for b in busy[i + 1:]:
                if intervals[a][0] < intervals[b][1] and \
                        intervals[b][0] < intervals[a][1]:
                    overlaps += 1
        ctx.label("fmt=" + fmt, f"writers={len(specs)}",
                  "overlap" if overlaps else "no-overlap")
        ctx.count("overlapping_pairs", overlaps)
        if overlaps:
            ctx.nontrivial([
                fmt, [[(r[0], len(r[1])) for r in s["runs"]] for s in specs],
                case["delays_us"], overlaps
            ])
    finally:
        dsops.rmtree(root)


STAGES = [
    Stage(name="writers",
          run=run_case,
          strategy=lambda tier: strategy_case(tier),
          examples={
              "quick": 320,
              "thorough": 8000
          },
          fork=True,
          timeout=300,
          timeout_violation=hang_is_violation(
              "equivalent", "the multi-writer call (or reading back its result)"))
]
