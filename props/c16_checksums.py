"""C16  Recorded checksums are the standard digests of the exact file bytes.

Stage ``files``: hash_checksums(file, algos) on generated files (sizes around
every multiple of the 128 KiB read buffer, generated content, algorithm tuples
with order and repetition) vs reference digests computed one-shot by code that
shares nothing with the function under test (hashlib one-shot, own pure-Python
XXH32/XXH64, one-shot XXH3-128 + published vectors); for a third of the files
the path is then rewritten with another content of the same size and the same
modification time and hashed again.
Stage ``grid`` (thorough: exhaustive): the full size grid x 13 algorithms x 3
content kinds.
Stage ``dataset``: every checksum stored anywhere in the metadata tree after
every session of a generated history, and the ones returned by write_config /
current_metadata_checksums, vs the reference digests of the final on-disk
bytes of the named file, in the configured order.  Sessions may be
"unpublished" (killed before the final update: nothing asserted until the next
completed session) or "aborted" (the caller's code raises inside the
with-block after the writes: an orderly exit, everything recorded must be
exact).
"""
from __future__ import annotations

import os

import random
import string

from hypothesis import strategies as st

from props import hist_common
from vlib import dsops, env, refhash
from vlib.core import Stage

ID = "C16"
LEVEL = "exploration"
RULE = ("files: size from {0,1,131071..131073,k*131072+d (k<=5,|d|<=2), random "
        "<=1MiB} x content kind {zeros,ff,counter,prng(seed)} x algorithm "
        "tuples (1..8 of 13, repetition allowed). dataset: C04 histories with "
        "1..13 algorithms. Non-trivial: size > 128KiB and not a multiple of "
        "it, or >= 2 algorithms (files); >= 2 sessions with nested lists "
        "(dataset). Distinct by (size class, algorithm tuple) / history "
        "fingerprint + algorithms.")
ASSUMPTIONS = [
    "hashlib one-shot digests and the XXH3 core of the xxhash wheel are "
    "correct (own XXH32/XXH64 and published vectors cross-check the wheel)",
]

BUF = 128 * 1024


def make_content(kind: str, size: int, pseed: int) -> bytes:
    if kind == "zeros":
        return bytes(size)
    if kind == "ff":
        return b"\xff" * size
    if kind == "counter":
        return bytes(i % 251 for i in range(min(size, 251))) * (size // 251 +
                                                                1)
    return random.Random(pseed).randbytes(size)


def st_size():
    near = st.builds(lambda k, d: max(0, k * BUF + d), st.integers(0, 5),
                     st.integers(-2, 2))
    return st.one_of(st.sampled_from([0, 1, BUF - 1, BUF, BUF + 1]), near,
                     st.integers(0, 1 << 20), st.integers(0, 300))


def strategy_files(tier):
    return st.fixed_dictionaries({
        "size": st_size(),
        "kind": st.sampled_from(["zeros", "ff", "counter", "prng", "prng"]),
        "pseed": st.integers(0, 2**32),
        "algos": st.lists(st.sampled_from(dsops.HASHES),
                          min_size=1,
                          max_size=8),
    })


def size_class(n: int) -> str:
    if n <= 1:
        return str(n)
    if n < BUF:
        return "<buf"
    if n % BUF == 0:
        return f"{n // BUF}*buf"
    return f"{n // BUF}*buf+{'1' if n % BUF == 1 else ('-1' if n % BUF == BUF - 1 else 'r')}"


def check_tuple(ctx, where: str, algos, got, data: bytes):
    want = refhash.ref_digests(algos, data)
    got = tuple(got)
    if len(got) != len(algos):
        ctx.fail("order", ("tuple-length",),
                 f"{where}: {len(got)} digests for {len(algos)} algorithms")
        return
    for i, (a, g, w) in enumerate(zip(algos, got, want)):
        if not isinstance(g, str) or g != g.lower() or any(
                c not in string.hexdigits for c in g):
            ctx.fail("format", ("not-lowercase-hex", a),
                     f"{where}: digest #{i} ({a}) = {g!r}")
        if g != w:
            other = [b for b, x in zip(algos, want) if x == g and b != a]
            ctx.fail(
                "digest", ("digest-mismatch", a,
                           "is-digest-of-" + other[0] if other else "wrong"),
                f"{where}: digest #{i} for {a} is {g}, the standard digest "
                f"of the {len(data)} file bytes is {w}")


def run_files(case, ctx):
    from sedpack.io.utils import hash_checksums
    data = make_content(case["kind"], case["size"], case["pseed"])[:case["size"]]
    d = env.scratch_dir("c16")
    try:
        p = d / "blob.bin"
        p.write_bytes(data)
        got = hash_checksums(p, tuple(case["algos"]))
        check_tuple(ctx, f"hash_checksums(size={len(data)})", case["algos"],
                    got, data)
        if data and case["pseed"] % 3 == 0:
            # the same path holds another content of the same size with the
            # same modification time (rsync -t, cp -p, tar x, a coarse clock):
            # the digests are those of the bytes that are there now
            st_ = os.stat(p)
            flipped = bytes([data[0] ^ 0x5A]) + data[1:]
            p.write_bytes(flipped)
            os.utime(p, ns=(st_.st_atime_ns, st_.st_mtime_ns))
            got = hash_checksums(p, tuple(case["algos"]))
            check_tuple(ctx, f"hash_checksums(size={len(data)}) after the "
                        f"file was replaced by another content of the same "
                        f"size and modification time", case["algos"], got,
                        flipped)
            ctx.label("same-size-same-mtime-rewrite")
    finally:
        dsops.rmtree(d)
    n = len(data)
    ctx.label("size:" + size_class(n), f"algos={min(len(case['algos']), 4)}+")
    if (n > BUF and n % BUF != 0) or len(case["algos"]) >= 2:
        ctx.nontrivial([size_class(n), case["algos"], case["kind"]])


def strategy_threads(tier):
    return st.fixed_dictionaries({
        "files": st.lists(st.fixed_dictionaries({
            "size": st.sampled_from([BUF + 1, 2 * BUF + 7, 3 * BUF, 5 * BUF - 1,
                                     700]),
            "kind": st.sampled_from(["counter", "prng"]),
            "pseed": st.integers(0, 2**32),
        }), min_size=2, max_size=5),
        "algos": st.lists(st.sampled_from(dsops.HASHES), min_size=1,
                          max_size=4),
        "rounds": st.integers(2, 6),
    })


def run_threads(case, ctx):
    """hash_checksums called from several threads of one process at the same
    time (e.g. check() of two datasets): every result must still be the
    digest of its own file."""
    from concurrent.futures import ThreadPoolExecutor
    from sedpack.io.utils import hash_checksums
    d = env.scratch_dir("c16t")
    try:
        blobs = []
        for i, f in enumerate(case["files"]):
            data = make_content(f["kind"], f["size"], f["pseed"])[:f["size"]]
            p = d / f"blob{i}.bin"
            p.write_bytes(data)
            blobs.append((p, data))
        algos = tuple(case["algos"])
        with ThreadPoolExecutor(max_workers=len(blobs)) as ex:
            for _ in range(case["rounds"]):
                futs = [ex.submit(hash_checksums, p, algos) for p, _ in blobs]
                for (p, data), fut in zip(blobs, futs):
                    check_tuple(ctx, f"hash_checksums({p.name}, "
                                f"size={len(data)}) from "
                                f"{len(blobs)} concurrent threads",
                                case["algos"], fut.result(), data)
                    ctx.evaluated()
        ctx.label("threads")
        ctx.nontrivial(["threads", [f["size"] for f in case["files"]],
                        case["algos"]])
    finally:
        dsops.rmtree(d)


def enumerate_grid(tier):
    if tier != "thorough":
        sizes = [0, 1, BUF - 1, BUF, BUF + 1, 2 * BUF, 2 * BUF + 1]
        kinds = ["prng"]
    else:
        sizes = sorted(
            {0, 1} | {max(0, k * BUF + d) for k in range(0, 6)
                      for d in range(-2, 3)} | {1 << 20, (1 << 20) + 7})
        kinds = ["zeros", "counter", "prng"]
    return [{
        "size": s,
        "kind": k,
        "pseed": 12345 + s,
        "algos": [a]
    } for s in sizes for k in kinds for a in dsops.HASHES]


@st.composite
def strategy_dataset(draw, tier):
    case = draw(
        hist_common.st_history_case(
            tier,
            tfrec_weight=0,
            hashes=st.lists(st.sampled_from(dsops.HASHES), min_size=1,
                            max_size=13),
            max_ops=4))
    # some sessions never publish (killed before their final update): the
    # statement about recorded checksums is unconditional
    eps = case["desc"]["eps"]
    for i, op in enumerate(case["ops"]):
        if op["k"] == "filler" and draw(st.integers(0, 4)) == 0 and \
                i < len(case["ops"]) - 1:
            op["k"] = "unpublished"
        elif op["k"] == "filler" and draw(st.integers(0, 4)) == 0:
            # the caller's code raises inside the with-block after the writes
            # (an orderly exit of the filler, not a crash): whatever the
            # metadata records afterwards must be exact
            op["k"] = "aborted"
    if draw(st.integers(0, 2)) == 0:
        # recovery pattern: a directory is published, an unpublished (killed)
        # session continues in the SAME directory and split, then another
        # session into the same split completes
        split = draw(st.integers(0, 2))
        n = st.integers(1, 2 * eps + 1)
        first = draw(st.sampled_from(["new", "root"]))
        third = draw(st.sampled_from(["new", "root", "reuse", "nested"]))
        case["ops"] = case["ops"][:1] + [
            {"k": "filler", "dir": {"rel": first, "pick": 0},
             "runs": [[split, draw(n), 0, None]], "reopen": draw(st.booleans())},
            {"k": "unpublished",
             "dir": {"rel": "reuse" if first == "new" else "root", "pick": 50},
             "runs": [[split, draw(n), 0, None]], "reopen": False},
            {"k": "filler", "dir": {"rel": third, "pick": draw(st.integers(0, 3))},
             "runs": [[split, draw(n), 0, None]], "reopen": draw(st.booleans())},
        ]
    return case


def run_dataset(case, ctx):
    algos = case["desc"]["hashes"]
    state = {"files": 0}

    def verify(h, where, rel, recorded):
        data = (h.root / rel).read_bytes()
        check_tuple(ctx, f"{where} -> {rel}", algos, recorded, data)
        state["files"] += 1

    def after(h, info):
        if info["kind"] == "unpublished":
            # like a crash state: parents legitimately hold the checksums of
            # the previous versions until the next completed session
            return
        tree = dsops.walk_dataset(h.root)
        for split, entry in tree["splits"].items():
            if h.tainted and split not in info.get("splits", []):
                # only the splits a completed session touched are re-merged
                # (and must be exact again) after an unpublished session
                continue
            s = entry["summary"]["shard_list_info_file"]
            verify(h, "dataset_info.json", s["file_path"],
                   s.get("hash_checksums", []))
            for node in dsops.all_nodes(entry["node"]):
                for sh in node["shards"]:
                    for f, cs in zip(sh["files"], sh["checksums"]):
                        verify(h, node["rel"], f, cs)
                for ch in node["children"]:
                    c = ch["summary"]["shard_list_info_file"]
                    verify(h, node["rel"], c["file_path"],
                           c.get("hash_checksums", []))
        if h.tainted:
            return
        got = h.ds.current_metadata_checksums()
        check_tuple(ctx, "current_metadata_checksums", algos, got,
                    (h.root / "dataset_info.json").read_bytes())
        file_info = h.ds.write_config(updated_infos=[])
        check_tuple(ctx, "write_config return value", algos,
                    file_info.hash_checksums,
                    (h.root / str(file_info.file_path)).read_bytes())

    h = hist_common.run_history(case, ctx, after, prefix="c16")
    hist_common.history_labels(h, ctx)
    ctx.count("checksums_verified", state["files"])
    ctx.label(f"algos={min(len(algos), 5)}+")
    if len(h.sessions) >= 2 and hist_common.history_nontrivial(h):
        ctx.nontrivial([h.fingerprint(), algos])


def setup(tier):
    refhash.self_test()


STAGES = [
    Stage(name="files",
          run=run_files,
          strategy=strategy_files,
          examples={
              "quick": 1500,
              "thorough": 60000
          },
          setup=setup),
    Stage(name="threads",
          run=run_threads,
          strategy=strategy_threads,
          examples={
              "quick": 200,
              "thorough": 3000
          },
          setup=setup),
    Stage(name="grid",
          run=run_files,
          enumerate=enumerate_grid,
          exhaustive=True,
          setup=setup),
    Stage(name="dataset",
          run=run_dataset,
          strategy=lambda tier: strategy_dataset(tier),
          examples={
              "quick": 160,
              "thorough": 8000
          },
          fork=True,
          setup=setup),
]
