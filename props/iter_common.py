"""Shared generator / dataset builder for the iteration family
(C02, C03, C12, C19, C14): one generated dataset, many generated reads."""
from __future__ import annotations

import threading
import time

from hypothesis import strategies as st

from vlib import dsops, env, history

# process_record used by the NumPy interfaces: tags the example; applying it
# twice fails loudly (a tuple has no ["id"]), not applying it is visible.
_calls = {"n": 0}
_calls_lock = threading.Lock()


def np_process_record(example):
    with _calls_lock:
        _calls["n"] += 1
    return ("P", 3 * dsops.ex_id_of(example) + 1, example)


def np_process_record_some_none(example):
    with _calls_lock:
        _calls["n"] += 1
    if dsops.ex_id_of(example) % 3 == 0:
        return None
    return ("P", 3 * dsops.ex_id_of(example) + 1, example)


def tf_process_record(record):
    out = dict(record)
    out["id"] = record["id"] * 3 + 1
    return out


def reset_calls():
    with _calls_lock:
        _calls["n"] = 0


def calls() -> int:
    return _calls["n"]


def st_iter_desc(tier, formats=None, eps=None):
    """fb with every codec, npz, some tfrec; small shards."""

    @st.composite
    def build(draw):
        fmt = draw(
            st.sampled_from(formats or
                            (["fb"] * 6 + ["npz"] * 3 + ["tfrec"] * 2)))
        comp = draw(st.sampled_from(dsops.COMPRESSIONS[fmt]))
        e = draw(eps if eps is not None else st.integers(1, 5))
        return dsops.simple_desc(fmt, comp, e, ["xxh64"], payload=True)

    return build()


def st_read(shuffle: bool = True, proc: bool = True):
    return st.fixed_dictionaries({
        "iface": st.integers(0, 9),
        "split": st.integers(0, 2),
        "shuffle": (st.sampled_from([["abs", 0], ["abs", 0], ["abs", 1],
                                     ["abs", 2], ["abs", 3], ["N", -1],
                                     ["N", 0], ["N", 1], ["xN", 10]])
                    if shuffle else st.just(["abs", 0])),
        "fp": st.sampled_from([["abs", 1], ["abs", 2], ["abs", 3], ["S", -1],
                               ["S", 0], ["S", 1], ["S", 2], ["abs", 7]]),
        "proc": st.booleans() if proc else st.just(False),
        # the transformation returns None for every third example (legal: its
        # result is the caller's business)
        "proc_none": st.booleans() if proc else st.just(False),
        "delays": st.lists(st.integers(0, 3), min_size=0, max_size=6),
    })


@st.composite
def st_iter_case(draw,
                 tier,
                 shuffle=True,
                 proc=True,
                 max_ops=3,
                 reads=(3, 8),
                 formats=None,
                 multi=True,
                 metas=False,
                 eps=None):
    desc = draw(st_iter_desc(tier, formats, eps))
    ops = draw(
        history.st_ops(desc["eps"],
                       max_ops=max_ops if desc["fmt"] != "tfrec" else 2,
                       multi=multi,
                       metas=metas,
                       busy=True,
                       single_process=True))
    rd = draw(st.lists(st_read(shuffle, proc), min_size=reads[0],
                       max_size=reads[1]))
    return {"desc": desc, "ops": ops, "reads": rd}


# weights: tf.data is expensive, keep its share low
IFACE_ORDER = ("sync", "concurrent", "concurrent", "async", "rust", "rust",
               "tfdata", "sync", "concurrent", "rust")


def resolve_iface(idx: int, desc: dict, only=None) -> str:
    order = [
        i for i in IFACE_ORDER
        if dsops.interface_applicable(i, desc) and (only is None or i in only)
    ]
    return order[idx % len(order)]


class BuiltDataset:

    def __init__(self, case, ctx, prefix):
        self.root = env.scratch_dir(prefix)
        self.ok = False
        self.h = history.History(self.root / "ds", case["desc"])
        for op in case["ops"]:
            try:
                self.h.apply(op)
            except history.SessionFailed as exc:
                ctx.label("aborted_history:" + type(exc.exc).__name__)
                return
        self.desc = case["desc"]
        self.tree = dsops.walk_dataset(self.h.root)
        self.shards = {
            s: dsops.shards_in_order(e["node"])
            for s, e in self.tree["splits"].items()
        }
        self.nonempty = [s for s in dsops.SPLITS if self.h.model[s]]
        self.nested = any(e["node"]["children"]
                          for e in self.tree["splits"].values())
        self.ok = bool(self.nonempty)

    def split_for(self, idx: int) -> str:
        return self.nonempty[idx % len(self.nonempty)]

    def n_examples(self, split) -> int:
        return len(self.h.model[split])

    def n_shards(self, split) -> int:
        return len(self.shards[split])

    def resolve_shuffle(self, spec, split) -> int:
        kind, v = spec
        n = self.n_examples(split)
        if kind == "abs":
            return v
        if kind == "N":
            return max(0, n + v)
        return max(1, n * v)

    def resolve_fp(self, spec, split) -> int:
        kind, v = spec
        if kind == "abs":
            return v
        return max(1, self.n_shards(split) + v)

    def cleanup(self):
        dsops.rmtree(self.root)


def install_delays(desc: dict, shard_paths: list, delays_ms: list):
    """Make the Python shard readers sleep a generated time per shard so that
    worker completion order varies (child process only)."""
    if not delays_ms or not any(delays_ms):
        return
    from sedpack.io.flatbuffer import IterateShardFlatBuffer
    from sedpack.io.npz import IterateShardNP
    from sedpack.io.tfrec import IterateShardTFRec
    cls = {
        "fb": IterateShardFlatBuffer,
        "npz": IterateShardNP,
        "tfrec": IterateShardTFRec
    }[desc["fmt"]]
    if getattr(cls, "_verif_orig_pal", None) is None:
        cls._verif_orig_pal = cls.process_and_list
    orig = cls._verif_orig_pal
    index = {str(p): i for i, p in enumerate(shard_paths)}

    def slow(self, shard_file):
        i = index.get(str(shard_file), 0)
        ms = delays_ms[i % len(delays_ms)]
        if ms:
            time.sleep(ms / 1000.0)
        return orig(self, shard_file)

    cls.process_and_list = slow


def uninstall_delays(desc: dict):
    from sedpack.io.flatbuffer import IterateShardFlatBuffer
    from sedpack.io.npz import IterateShardNP
    from sedpack.io.tfrec import IterateShardTFRec
    for cls in (IterateShardFlatBuffer, IterateShardNP, IterateShardTFRec):
        if getattr(cls, "_verif_orig_pal", None) is not None:
            cls.process_and_list = cls._verif_orig_pal
