"""C15  The Rust reader equals the Python reader for every thread count and
timing.

Stage ``reader`` (differential): FlatBuffers datasets in every compression the
native reader supports, 1..3 payload attributes (all fb dtypes, ranks 0..3),
1..10 (one case in eight: 17..48 small) shards of SKEWED sizes (1..300 examples; shard boundaries forced by
metadata changes so that worker completion order varies), then reads with
file_parallelism T in 1..S+3 and 16, 33, 64, shards=k, shard_filter, shuffle on/off, early
drop after j examples, and two native iterators alive at the same time on
different splits advanced in a generated interleaving across epoch boundaries
(unshuffled or shuffled); in a quarter of the cases a native pass over another
dataset has failed earlier in the same process (missing shard file).
Oracle: as_numpy_iterator_rust(shuffle=0) yields the same sequence as
as_numpy_iterator(shuffle=0), bitwise per attribute with the same dtype and
shape; shuffled => the same multiset; an empty selection raises in both; an
early drop returns and the number of OS threads of the process goes back to
its value before the iterator existed.
Stage ``pmap``: the generic parallel_map behind the reader, through a driver
binary linked against /repo/rust: n in 0..40 items, T in 1..12 threads,
adversarial per-item delays (first slowest, alternating, random), drop after
k: output == [f(x)] in order, length n (or k), the call returns and the
thread count is back afterwards.
"""
from __future__ import annotations

import os
import subprocess
import time
from collections import Counter

import numpy as np
from hypothesis import strategies as st

from vlib import dsops, env, oracles
from vlib.core import Stage

ID = "C15"
LEVEL = "exploration"
RULE = ("reader: non-trivial if T != S, or shard sizes are skewed by >= 10x, "
        "or the read drops early / interleaves two iterators. pmap: "
        "non-trivial if delays make a later item finish before an earlier "
        "one (T >= 2 and non-constant delays) or the consumer drops early. "
        "Distinct by (compression, S-vs-T relation, skew class, options, "
        "drop/interleave) / (n, T, delay pattern, k).")
ASSUMPTIONS = [
    "Rust worker-thread interleavings are perturbed by shard-size skew and "
    "sleeps, not owned (no loom offline): the claim is 'no counter-example "
    "in the explored perturbed schedules'",
]
NEEDS_RUST_HARNESS = True

SHAPES = [[], [1], [4], [2, 3], [3, 1, 2]]


@st.composite
def strategy_reader(draw, tier):
    comp = draw(st.sampled_from(dsops.RUST_COMPRESSIONS))
    attrs = [{"name": "id", "dtype": "int64", "shape": []}]
    for i in range(draw(st.integers(0, 3))):
        attrs.append({
            "name": f"a{i}",
            "dtype": draw(st.sampled_from(dsops.NUMERIC_FB +
                                          [">i4", ">f8", ">u2", "<i8"])),
            "shape": draw(st.sampled_from(SHAPES))
        })
    size = st.one_of(st.integers(1, 3), st.integers(1, 30),
                     st.sampled_from([1, 1, 100, 300]))
    if draw(st.integers(0, 7)) == 0:
        # many small shards: more shards (and threads) than the reader has
        # processors or any internal bound on work in flight
        train = draw(st.lists(st.integers(1, 3), min_size=17, max_size=48))
    else:
        train = draw(st.lists(size, min_size=1, max_size=10))
    shards = {
        "train": train,
        "test": draw(st.lists(size, min_size=0, max_size=4)),
    }
    reads = draw(
        st.lists(st.fixed_dictionaries({
            "t": st.sampled_from([["abs", 1], ["abs", 2], ["S", -1], ["S", 0],
                                  ["S", 1], ["S", 3], ["abs", 16],
                                  ["abs", 33], ["abs", 64]]),
            "k": st.one_of(st.none(), st.integers(1, 11)),
            "filter": st.sampled_from([None, None, "even", "big", "none"]),
            "shuffle": st.sampled_from([0, 0, 0, 5]),
            "drop": st.one_of(st.none(), st.integers(1, 40)),
        }),
                 min_size=2,
                 max_size=5))
    pair = draw(
        st.one_of(
            st.none(),
            st.fixed_dictionaries({
                "t": st.sampled_from([1, 2, 3, 4, 16, 20]),
                "pattern": st.lists(st.integers(0, 1), min_size=4,
                                    max_size=40),
                "repeat": st.booleans(),
                "shuffle": st.sampled_from([0, 0, 4]),
            })))
    threads = draw(st.sampled_from([None, None, 1, 2, 3]))
    return {"compression": comp, "attrs": attrs, "shards": shards,
            "reads": reads, "pair": pair, "threads": threads,
            # earlier in the same process a native pass over ANOTHER dataset
            # failed (a shard file was missing): later passes are unaffected
            "failed_pass_first": draw(st.integers(0, 3)) == 0}


def os_threads() -> int:
    return len(os.listdir("/proc/self/task"))


def same_example(desc, a, b) -> bool:
    for at in desc["attrs"]:
        x, y = np.asarray(a[at["name"]]), np.asarray(b[at["name"]])
        if x.dtype != y.dtype or x.shape != y.shape or \
                x.tobytes() != y.tobytes():
            return False
    return True


def pred(name):
    if name == "even":
        return lambda s: s.number_of_examples % 2 == 0
    if name == "big":
        return lambda s: s.number_of_examples >= 10
    if name == "none":
        return lambda s: False
    return None


def run_reader(case, ctx):
    desc = {
        "fmt": "fb",
        "compression": case["compression"],
        "eps": 400,
        "hashes": ["xxh64"],
        "attrs": case["attrs"],
    }
    root = env.scratch_dir("c15")
    try:
        ds = dsops.create_dataset(root / "ds", desc)
        next_id = 0
        runs = []
        for split in ("train", "test"):
            for j, n in enumerate(case["shards"][split]):
                ids = list(range(next_id, next_id + n))
                next_id += n
                runs.append([split, ids, {"k": j % 2 + 1}])  # forces a cut
        dsops.filler_session(ds, desc, runs)
        if case.get("failed_pass_first"):
            broken_desc = dsops.simple_desc("fb", case["compression"], 1,
                                            ["xxh64"], payload=False)
            broken = dsops.create_dataset(root / "broken", broken_desc)
            dsops.filler_session(broken, broken_desc,
                                 [["train", [1, 2, 3], None]])
            victim = sorted((root / "broken" / "train").glob("*.fb"))[1]
            victim.unlink()
            try:
                dsops.read_all(broken, "train", "rust", shuffle=0,
                               file_parallelism=2)
                ctx.label("failed-pass-did-not-fail")
            except BaseException as exc:  # pylint: disable=broad-except
                if type(exc).__name__ in ("KeyboardInterrupt", "SystemExit"):
                    raise
                ctx.label("failed-pass-first")
        # the native reader keeps process-wide state: a dataset of another
        # attribute count read earlier in the same process must not matter
        other_desc = dsops.simple_desc("fb", case["compression"], 2, ["xxh64"],
                                       payload=len(case["attrs"]) < 3)
        other = dsops.create_dataset(root / "other", other_desc)
        dsops.filler_session(other, other_desc, [["train", [7, 8, 9], None]])
        ok, got_o = oracles.guarded(
            ctx, "same-examples", ("other-dataset-read-raised",),
            "reading a small dataset with another attribute count first",
            lambda: dsops.read_all(other, "train", "rust", shuffle=0,
                                   file_parallelism=2))
        if ok and [dsops.ex_id_of(e) for e in got_o] != [7, 8, 9]:
            ctx.fail("same-examples", ("sequence-differs", "other-dataset"),
                     f"small dataset read as {got_o}")
        sizes = case["shards"]["train"]
        s_total = len(sizes)
        skew = max(sizes) >= 10 * max(1, min(sizes))
        base_threads = os_threads()
        for r in case["reads"]:
            t = max(1, r["t"][1] if r["t"][0] == "abs" else s_total + r["t"][1])
            opts = {"repeat": False, "shuffle": r["shuffle"]}
            if r["k"] is not None:
                opts["shards"] = r["k"]
            if r["filter"] is not None:
                opts["shard_filter"] = pred(r["filter"])
            what = (f"comp={case['compression']!r} shard sizes {sizes} T={t} "
                    f"shards={r['k']} filter={r['filter']} "
                    f"shuffle={r['shuffle']} drop={r['drop']}")
            try:
                py = dsops.read_all(ds, "train", "sync", **opts)
                py_err = None
            except Exception as exc:  # pylint: disable=broad-except
                py, py_err = None, exc
            before = os_threads()
            t0 = time.monotonic()
            try:
                if r["drop"] is None:
                    ru = dsops.read_all(ds, "train", "rust",
                                        file_parallelism=t, **opts)
                else:
                    ru = dsops.read_prefix(ds, "train", "rust", r["drop"],
                                           file_parallelism=t, **opts)
                ru_err = None
            except BaseException as exc:  # pylint: disable=broad-except
                if type(exc).__name__ in ("KeyboardInterrupt", "SystemExit"):
                    raise
                ru, ru_err = None, exc
            # threads must be gone after the iterator was exhausted / dropped
            deadline = time.monotonic() + 10
            while os_threads() > before and time.monotonic() < deadline:
                time.sleep(0.002)
            if os_threads() > before:
                ctx.fail(
                    "drop-stops-threads", ("threads-left-behind",
                                           "drop" if r["drop"] is not None else
                                           "exhausted"),
                    f"{what}: {os_threads() - before} native threads still "
                    f"alive 10 s after the iterator was closed")
            if (py_err is None) != (ru_err is None):
                ctx.fail(
                    "same-examples", ("error-behaviour-differs",),
                    f"{what}: python reader "
                    f"{'raised ' + repr(py_err) if py_err else 'succeeded'}, "
                    f"rust reader "
                    f"{'raised ' + repr(ru_err) if ru_err else 'succeeded'}")
                continue
            if py_err is not None:
                ctx.label("both-raise")
                continue
            if r["drop"] is not None:
                want = py[:r["drop"]] if r["shuffle"] == 0 else None
                if len(ru) != min(r["drop"], len(py)):
                    ctx.fail("same-examples", ("prefix-length-differs",),
                             f"{what}: got {len(ru)} examples")
            else:
                want = py if r["shuffle"] == 0 else None
            if want is not None:
                if len(ru) != len(want) or not all(
                        same_example(desc, a, b) for a, b in zip(ru, want)):
                    k = next((i for i, (a, b) in enumerate(zip(ru, want))
                              if not same_example(desc, a, b)),
                             min(len(ru), len(want)))
                    ctx.fail(
                        "same-examples", ("sequence-differs", "unshuffled"),
                        f"{what}: rust yields {len(ru)} examples, python "
                        f"{len(want)}; first difference at position {k}: "
                        f"rust ids {[dsops.ex_id_of(e) for e in ru[k:k + 4]]} "
                        f"python ids "
                        f"{[dsops.ex_id_of(e) for e in want[k:k + 4]]}")
            else:
                by_id = {dsops.ex_id_of(e): e for e in py}
                ids = [dsops.ex_id_of(e) for e in ru]
                if r["drop"] is None and Counter(ids) != Counter(list(by_id)):
                    ctx.fail("same-examples", ("multiset-differs", "shuffled"),
                             f"{what}: " +
                             oracles.multiset_diff(ids, list(by_id)))
                for e in ru:
                    i = dsops.ex_id_of(e)
                    if i not in by_id or not same_example(desc, e, by_id[i]):
                        ctx.fail("same-examples", ("content-differs",
                                                   "shuffled"),
                                 f"{what}: example id {i}")
            ctx.count("reads")
            ctx.evaluated()
            rel = "T<S" if t < s_total else ("T=S" if t == s_total else "T>S")
            ctx.label(rel)
            if t != s_total or skew or r["drop"] is not None:
                ctx.nontrivial([
                    case["compression"], rel, skew,
                    r["k"] is not None, r["filter"], r["shuffle"] > 0,
                    r["drop"] is not None,
                    [a["dtype"] for a in case["attrs"][1:]]
                ])
        # ---- two native iterators alive at once -----------------------------
        pair = case["pair"]
        if pair is not None and case["shards"]["test"]:
            expected = {}
            for split in ("train", "test"):
                expected[split] = [
                    dsops.ex_id_of(e)
                    for e in dsops.read_all(ds, split, "sync", shuffle=0)
                ]
            its = {
                split: dsops.open_iter(ds, split, "rust",
                                       repeat=pair["repeat"],
                                       shuffle=pair.get("shuffle", 0),
                                       file_parallelism=pair["t"])
                for split in ("train", "test")
            }
            pos = {"train": 0, "test": 0}
            seen = {"train": [], "test": []}
            done = set()
            what = (f"two live iterators, T={pair['t']} repeat="
                    f"{pair['repeat']} shuffle={pair.get('shuffle', 0)} "
                    f"pattern={pair['pattern']} sizes {case['shards']}")
            try:
                for which in pair["pattern"] * 3:
                    split = ("train", "test")[which]
                    if split in done:
                        continue
                    try:
                        ex = next(its[split])
                    except StopIteration:
                        if pair["repeat"] or pos[split] != len(
                                expected[split]):
                            ctx.fail(
                                "same-examples",
                                ("interleaved-iterators-differ", "ended"),
                                f"{what}: {split} ended after {pos[split]} "
                                f"of {len(expected[split])}")
                        done.add(split)
                        continue
                    except BaseException as exc:  # pylint: disable=broad-except
                        if type(exc).__name__ in ("KeyboardInterrupt",
                                                  "SystemExit"):
                            raise
                        ctx.fail(
                            "same-examples",
                            ("interleaved-iterators-differ",
                             type(exc).__name__),
                            f"{what}: {split} raised {exc!r} at {pos[split]}")
                        break
                    want = expected[split][pos[split] % len(expected[split])]
                    seen[split].append(dsops.ex_id_of(ex))
                    if pair.get("shuffle", 0):
                        # shuffled: every complete epoch is a permutation
                        n_split = len(expected[split])
                        if len(seen[split]) % n_split == 0 and Counter(
                                seen[split][-n_split:]) != Counter(
                                    expected[split]):
                            ctx.fail(
                                "same-examples",
                                ("interleaved-iterators-differ",
                                 "epoch-not-a-permutation"),
                                f"{what}: {split} epoch ending at position "
                                f"{len(seen[split])}: " +
                                oracles.multiset_diff(seen[split][-n_split:],
                                                      expected[split]))
                    elif dsops.ex_id_of(ex) != want:
                        ctx.fail(
                            "same-examples",
                            ("interleaved-iterators-differ", "wrong-example"),
                            f"{what}: {split} position {pos[split]} yields id "
                            f"{dsops.ex_id_of(ex)}, python reader {want}")
                    pos[split] += 1
            finally:
                for it in its.values():
                    it.close()
            ctx.label("pair")
            ctx.nontrivial(["pair", pair["t"], pair["repeat"],
                            len(pair["pattern"]), case["shards"]["test"][:3]])
        # ---- two Python threads, each iterating its own native iterator ----
        if case.get("threads") and case["shards"]["test"]:
            import threading
            results = {}

            def worker(split):
                try:
                    results[split] = [
                        dsops.ex_id_of(e) for e in dsops.read_all(
                            ds, split, "rust", shuffle=0,
                            file_parallelism=case["threads"])
                    ]
                except BaseException as exc:  # pylint: disable=broad-except
                    results[split] = exc

            ths = [threading.Thread(target=worker, args=(sp,), daemon=True)
                   for sp in ("train", "test")]
            for t in ths:
                t.start()
            for t in ths:
                t.join()  # a deadlock here is caught by the stage watchdog
            for sp in ("train", "test"):
                want = [dsops.ex_id_of(e)
                        for e in dsops.read_all(ds, sp, "sync", shuffle=0)]
                if isinstance(results.get(sp), BaseException) or \
                        results.get(sp) != want:
                    ctx.fail(
                        "same-examples", ("threaded-iterators-differ",),
                        f"two Python threads reading train/test through the "
                        f"native reader at the same time: {sp} gives "
                        f"{results.get(sp)!r}, python reader {want}")
            ctx.label("two-threads")
            ctx.nontrivial(["two-threads", case["threads"],
                            case["compression"]])
        deadline = time.monotonic() + 10
        while os_threads() > base_threads and time.monotonic() < deadline:
            time.sleep(0.002)
        if os_threads() > base_threads:
            ctx.fail("drop-stops-threads", ("threads-left-behind", "end"),
                     f"{os_threads() - base_threads} native threads alive at "
                     f"the end of the case")
    finally:
        dsops.rmtree(root)


# ----------------------------------------------------------------------- pmap
@st.composite
def strategy_pmap(draw, tier):
    n = draw(st.integers(0, 40))
    t = draw(st.integers(1, 12))
    pattern = draw(st.sampled_from(["zero", "first-slow", "alternating",
                                    "random", "last-slow"] * 6 +
                                   ["one-very-slow"]))
    if pattern == "zero":
        delays = []
    elif pattern == "first-slow":
        delays = [3000] + [0] * max(n - 1, 1)
    elif pattern == "last-slow":
        delays = [0] * max(n - 1, 1) + [3000]
    elif pattern == "one-very-slow":
        # one item takes > 1 s while the other workers are long done
        n = min(n, t) if n else n
        delays = [0] * max(n, 1)
        delays[draw(st.integers(0, max(n, 1) - 1))] = 1_300_000
    elif pattern == "alternating":
        delays = [1500, 0]
    else:
        delays = draw(st.lists(st.sampled_from([0, 100, 700, 2500]),
                               min_size=1, max_size=8))
    k = draw(st.one_of(st.just(-1), st.integers(0, max(n, 1))))
    return {"n": n, "t": t, "k": k, "delays": delays, "pattern": pattern}


def run_pmap(case, ctx):
    exe = os.environ["VERIF_PMAP_DRIVER"]
    n, t, k = case["n"], case["t"], case["k"]
    line = f"{n} {t} {k} {','.join(str(d) for d in case['delays'])}\n"
    what = f"parallel_map n={n} T={t} take={k} delays_us={case['delays'][:8]}"
    try:
        res = subprocess.run([exe], input=line, capture_output=True,
                             text=True, timeout=120, check=False)
    except subprocess.TimeoutExpired:
        try:
            res = subprocess.run([exe], input=line, capture_output=True,
                                 text=True, timeout=240, check=False)
        except subprocess.TimeoutExpired:
            ctx.fail("drop-stops-threads", ("pmap-hang",
                                            "drop" if k >= 0 else "full"),
                     f"{what}: no answer within 120 s and again within 240 s")
            return
    if res.returncode != 0:
        ctx.fail("map-order", ("pmap-crashed",),
                 f"{what}: rc={res.returncode} {res.stderr[-400:]}")
        return
    fields = dict(f.split("=", 1) for f in res.stdout.strip().split(" "))
    out = [int(x) for x in fields["out"].split(",") if x]
    want = [2 * x + 1 for x in range(n)]
    if k >= 0:
        want = want[:k]
    if out != want:
        ctx.fail("map-order", ("pmap-output-differs",),
                 f"{what}: output {out[:20]} expected {want[:20]}")
    if fields["threads_after"] != fields["threads_before"]:
        ctx.fail("drop-stops-threads", ("pmap-threads-left-behind",),
                 f"{what}: OS threads before {fields['threads_before']} "
                 f"after drop {fields['threads_after']}")
    ctx.label("pattern=" + case["pattern"])
    if (t >= 2 and case["pattern"] != "zero" and n >= 2) or (0 <= k < n):
        ctx.nontrivial(["pmap", n, t, case["pattern"], k])


STAGES = [
    Stage(name="reader",
          run=run_reader,
          strategy=lambda tier: strategy_reader(tier),
          examples={
              "quick": 500,
              "thorough": 18000
          },
          fork=True,
          rust=True,
          timeout=60,
          timeout_violation=lambda case: (
              "drop-stops-threads", ("reader-hang",),
              f"a read (full, early-dropped or interleaved) never returned: "
              f"comp={case['compression']!r} shards={case['shards']} "
              f"reads={case['reads']} pair={case['pair']}")),
    Stage(name="pmap",
          run=run_pmap,
          strategy=lambda tier: strategy_pmap(tier),
          examples={
              "quick": 3000,
              "thorough": 180000
          }),
]
