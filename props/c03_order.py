"""C03  Unshuffled iteration is deterministic and preserves write order.

One generated dataset (single- and multi-session histories, splits interleaved
inside a session, multi-writer sessions in-process and with real worker
processes); reads with shuffle=0, repeat=False through every applicable
interface, for several generated file_parallelism values, twice on the same
handle (a shuffled pass and a pass abandoned after k examples in between) and
once after reopening, with generated per-shard reader delays; a tf.data object
is iterated twice with an abandoned partial iteration in between.
Oracle: (a) for one interface all passes are the identical id sequence,
whatever the parallelism, and a pass cut short is a prefix of it; (b) for
every session the subsequence of that session's ids is in write order (ids
are allocated increasing in write order, multi-writer sessions writer-major
in argument order).  Nothing is asserted
about the relative position of different sessions.
"""
from __future__ import annotations

from hypothesis import strategies as st

from props import iter_common
from vlib import dsops, history, oracles
from vlib.core import Stage, hang_is_violation

ID = "C03"
LEVEL = "exploration"
RULE = ("Hypothesis histories (1..3 busy sessions incl. multi-writer with "
        "real processes) x 2..5 (interface, split, [file_parallelism values], "
        "delays). Non-trivial: split with >= 3 shards and (some parallelism "
        "!= S or >= 2 splits written interleaved or >= 2 sessions). Distinct "
        "by (interface, S, parallelism classes, sessions, nested, format).")
ASSUMPTIONS = [
    "worker timing is perturbed by generated per-shard delays (Python "
    "readers) and shard size skew (Rust), not enumerated",
]


@st.composite
def strategy_case(draw, tier):
    desc = draw(iter_common.st_iter_desc(tier))
    ops = draw(
        history.st_ops(desc["eps"],
                       max_ops=3 if desc["fmt"] != "tfrec" else 2,
                       multi=True,
                       metas=False,
                       busy=True))
    reads = draw(
        st.lists(st.fixed_dictionaries({
            "iface": st.integers(0, 9),
            "split": st.integers(0, 2),
            "fps": st.lists(st.sampled_from([["abs", 1], ["abs", 2],
                                             ["S", -1], ["S", 0], ["S", 1],
                                             ["S", 2], ["abs", 5]]),
                            min_size=1,
                            max_size=3),
            "delays": st.lists(st.integers(0, 3), min_size=0, max_size=6),
            # length of a pass which is abandoned early (0 = none)
            "peek": st.sampled_from([0, 1, 2, 3, 5, 8]),
        }),
                 min_size=2,
                 max_size=5))
    return {"desc": desc, "ops": ops, "reads": reads}


def run_case(case, ctx):
    from sedpack.io import Dataset
    b = iter_common.BuiltDataset(case, ctx, "c03")
    try:
        if not b.ok:
            return
        desc = b.desc
        ctx.label("fmt=" + desc["fmt"])
        for r in case["reads"]:
            iface = iter_common.resolve_iface(r["iface"], desc)
            split = b.split_for(r["split"])
            s = b.n_shards(split)
            by_id = {rec["id"]: rec for rec in b.h.model[split]}
            paths = [str(b.h.root / sh["files"][0]) for sh in b.shards[split]]
            sequences = []
            fps = [b.resolve_fp(f, split) for f in r["fps"]]
            if not dsops.iface_accepts(iface, "file_parallelism"):
                fps = [None]
            for fp in fps:
                for hname in ("kept", "kept-again", "reopened"):
                    ds = Dataset(b.h.root) if hname == "reopened" else b.h.ds
                    if hname == "kept-again":
                        # other uses of the handle in between (here: a
                        # shuffled pass) must not change the unshuffled order
                        oracles.guarded(
                            ctx, "deterministic",
                            ("iteration-raised", iface, "shuffled"),
                            f"{iface} split={split} shuffled pass in between",
                            lambda: dsops.read_all(
                                ds, split, iface, repeat=False, shuffle=7,
                                **({"file_parallelism": fp}
                                   if fp is not None else {})))
                    opts = {"repeat": False, "shuffle": 0}
                    if fp is not None:
                        opts["file_parallelism"] = fp
                    if hname == "kept-again" and r.get("peek", 0):
                        # ... nor must a pass which was abandoned early
                        ok, head = oracles.guarded(
                            ctx, "deterministic",
                            ("iteration-raised", iface, "abandoned"),
                            f"{iface} split={split} abandoned pass in between",
                            lambda: dsops.read_prefix(ds, split, iface,
                                                      r["peek"], **opts))
                        if ok:
                            sequences.append(
                                ((fp, "abandoned-prefix"),
                                 [dsops.ex_id_of(e) for e in head]))
                            ctx.label("abandoned-pass")
                    iter_common.install_delays(desc, paths, r["delays"])
                    try:
                        ok, got = oracles.guarded(
                            ctx, "deterministic", ("iteration-raised", iface),
                            f"{iface} split={split} S={s} fp={fp} {hname}",
                            lambda: dsops.read_all(ds, split, iface, **opts))
                    finally:
                        iter_common.uninstall_delays(desc)
                    if not ok:
                        continue
                    ids = [dsops.ex_id_of(e) for e in got]
                    sequences.append(((fp, hname), ids))
                    ctx.count("passes")
                    ctx.evaluated()
            if iface == "tfdata":
                # the natural "pass" of tf.data: iterate the SAME returned
                # dataset object again (what Keras does every epoch)
                opts = {"repeat": False, "shuffle": 0}
                if fps[0] is not None:
                    opts["file_parallelism"] = fps[0]
                ok, obj = oracles.guarded(
                    ctx, "deterministic", ("iteration-raised", iface),
                    f"{iface} split={split} re-iterated object",
                    lambda: dsops.tfdata_object(b.h.ds, split, **opts))
                if ok:
                    for again in ("object-pass-1", "object-peek",
                                  "object-pass-2"):
                        if again == "object-peek" and not r.get("peek", 0):
                            continue
                        ok2, got = oracles.guarded(
                            ctx, "deterministic",
                            ("iteration-raised", iface),
                            f"{iface} split={split} {again}",
                            lambda: dsops.iterate_tfdata_object(
                                *obj, n=(r["peek"] if again == "object-peek"
                                         else None)))
                        if ok2:
                            sequences.append(
                                ((fps[0], again),
                                 [dsops.ex_id_of(e) for e in got]))
                            ctx.count("passes")
                    ctx.evaluated()
            ref_cfg, ref = sequences[0]
            for cfg, ids in sequences[1:]:
                if cfg[1] in ("abandoned-prefix", "object-peek"):
                    # a pass cut short is a prefix of the full pass
                    same = ids == ref[:len(ids)] and len(ids) == min(
                        r["peek"], len(ref))
                else:
                    same = ids == ref
                if not same:
                    k = next((i for i, (x, y) in enumerate(zip(ids, ref))
                              if x != y), min(len(ids), len(ref)))
                    ctx.fail(
                        "deterministic", ("sequence-differs", iface),
                        f"{iface} split={split} S={s} fmt={desc['fmt']}: "
                        f"pass {cfg} differs from pass {ref_cfg} at position "
                        f"{k}: {ids[max(0, k - 2):k + 3]} vs "
                        f"{ref[max(0, k - 2):k + 3]}")
            # write order per session
            last = {}
            for pos, i in enumerate(ref):
                rec = by_id.get(i)
                if rec is None:
                    continue  # foreign ids are C02's business
                sess = rec["session"]
                if sess in last and last[sess] > i:
                    ctx.fail(
                        "write-order", ("session-order-violated", iface),
                        f"{iface} split={split}: id {i} (session {sess}) "
                        f"yielded after id {last[sess]} of the same session; "
                        f"sequence {ref}")
                last[sess] = i
            sessions_in_split = len(last)
            interleaved = any(
                len({x[0] for x in op.get("runs", [])}) >= 2
                for op in case["ops"] if op["k"] == "filler")
            ctx.label("iface=" + iface)
            if s >= 3 and (any(fp not in (None, s) for fp in fps) or
                           interleaved or sessions_in_split >= 2):
                ctx.nontrivial([
                    iface,
                    min(s, 9),
                    sorted({
                        "none" if fp is None else
                        ("<S" if fp < s else "=S" if fp == s else ">S")
                        for fp in fps
                    }), sessions_in_split, b.nested, desc["fmt"]
                ])
    finally:
        b.cleanup()


STAGES = [
    Stage(name="order",
          run=run_case,
          strategy=lambda tier: strategy_case(tier),
          examples={
              "quick": 320,
              "thorough": 4000
          },
          fork=True,
          rust=True,
          timeout=150,
          timeout_violation=hang_is_violation(
              "deterministic", "an unshuffled pass over a committed split"))
]
