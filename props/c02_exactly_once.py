"""C02  Exactly-once delivery.

Stage ``dataset``: a generated dataset (1..3 splits, 1..n shards, short last
shards, nested shard lists from sub-directory / multi-writer sessions) is read
with repeat=False through every applicable interface under generated
shuffle sizes (0,1,2,3,N-1,N,N+1,10N), file_parallelism (1..S+2), optional
process_record and generated per-shard reader delays.  Oracle: reference model
-- Counter(ids yielded) == Counter(ids written to that split), every yielded
example carries the content written for its id, process_record was applied
exactly once per example (result == f(example); call count == N where Python
can count).
Stage ``components``: shuffle_buffer, round_robin, their async twins and
LazyPool.imap_unordered on generated integer streams: multiset in == multiset
out (microsecond-cheap, tens of thousands of cases).
"""
from __future__ import annotations

import asyncio
from collections import Counter

from hypothesis import strategies as st

from props import iter_common
from vlib import dsops, oracles
from vlib.core import Stage, hang_is_violation

ID = "C02"
LEVEL = "exploration"
RULE = ("dataset stage: Hypothesis-generated histories (1..3 busy sessions, "
        "eps 1..5, fb x 7 codecs / npz / tfrec) x 3..8 reads (interface, split, "
        "shuffle relative to N, file_parallelism relative to S, process_record"
        ", per-shard delays). A read is non-trivial if the split has >= 2 "
        "shards and (shuffle>0 or parallelism>1 or nested lists). Distinct by "
        "(interface, S, N mod eps, shuffle-vs-N class, T-vs-S class, nested, "
        "process_record). components stage: integer streams of length 0..60, "
        "buffer sizes / thread counts around the stream length; non-trivial "
        "if length > buffer size > 0.")
ASSUMPTIONS = [
    "tf.data / Rust / OS thread timing is perturbed (per-shard delays, shard "
    "size skew), not enumerated; the multiset oracle is timing-insensitive",
]


def strategy(tier):
    return iter_common.st_iter_case(tier, shuffle=True, proc=True)


def shuffle_class(shuffle, n):
    if shuffle == 0:
        return "0"
    if shuffle < n:
        return "<N"
    if shuffle == n:
        return "=N"
    return ">N"


def fp_class(fp, s):
    return "<S" if fp < s else ("=S" if fp == s else ">S")


def run_dataset(case, ctx):
    b = iter_common.BuiltDataset(case, ctx, "c02")
    try:
        if not b.ok:
            return
        desc = b.desc
        ds = b.h.ds
        ctx.label("fmt=" + desc["fmt"])
        for r in case["reads"]:
            iface = iter_common.resolve_iface(r["iface"], desc)
            split = b.split_for(r["split"])
            n, s = b.n_examples(split), b.n_shards(split)
            shuffle = b.resolve_shuffle(r["shuffle"], split)
            fp = b.resolve_fp(r["fp"], split)
            proc = r["proc"]
            opts = {"repeat": False, "shuffle": shuffle}
            if dsops.iface_accepts(iface, "file_parallelism"):
                opts["file_parallelism"] = fp
            some_none = bool(proc and r.get("proc_none") and
                             iface != "tfdata")
            if proc:
                opts["process_record"] = (
                    iter_common.tf_process_record if iface == "tfdata" else
                    iter_common.np_process_record_some_none if some_none else
                    iter_common.np_process_record)
            paths = [str(b.h.root / sh["files"][0]) for sh in b.shards[split]]
            iter_common.install_delays(desc, paths, r["delays"])
            iter_common.reset_calls()
            try:
                ok, got = oracles.guarded(
                    ctx, "multiset", ("iteration-raised", iface),
                    f"{iface} split={split} N={n} S={s} shuffle={shuffle} "
                    f"file_parallelism={fp} proc={proc} fmt={desc['fmt']}",
                    lambda: dsops.read_all(ds, split, iface, **opts))
            finally:
                iter_common.uninstall_delays(desc)
            if not ok:
                continue
            want = [rec["id"] for rec in b.h.model[split]]
            ids = []
            if some_none:
                # the examples with id % 3 == 0 arrive as None, the others as
                # the transformation's tuple
                nones = sum(1 for ex in got if ex is None)
                want_nones = sum(1 for i in want if i % 3 == 0)
                if nones != want_nones:
                    ctx.fail(
                        "process-once", ("process-record-none-results", iface),
                        f"{iface} split={split} N={n} shuffle={shuffle} "
                        f"file_parallelism={fp}: process_record returns None "
                        f"for {want_nones} of the examples, the pass yielded "
                        f"{nones} None and {len(got) - nones} other elements")
                got = [ex for ex in got if ex is not None]
                want = [i for i in want if i % 3 != 0]
                ctx.label("process_record-returns-None")
            for ex in got:
                if proc and iface != "tfdata":
                    if not (isinstance(ex, tuple) and len(ex) == 3 and
                            ex[0] == "P"):
                        ctx.fail("process-once", ("process-record-not-applied",
                                                  iface),
                                 f"{iface} yielded {type(ex)} instead of the "
                                 f"process_record result")
                    tag, pid, inner = ex
                    if pid != 3 * dsops.ex_id_of(inner) + 1:
                        ctx.fail("process-once", ("process-record-wrong-value",
                                                  iface), f"{pid} vs {inner}")
                    ex = inner
                elif proc:
                    raw = int(ex["id"])
                    if (raw - 1) % 3 != 0:
                        ctx.fail("process-once",
                                 ("process-record-not-applied", iface),
                                 f"tf.data id {raw} is not 3*id+1")
                    ex = dict(ex)
                    ex["id"] = (raw - 1) // 3
                    if ex["id"] not in set(want) and raw in set(want):
                        ctx.fail("process-once",
                                 ("process-record-not-applied", iface),
                                 f"tf.data yielded untransformed id {raw}")
                if not dsops.example_matches(desc, ex):
                    ctx.fail(
                        "content", ("foreign-or-changed-example", iface),
                        f"{iface} split={split} shuffle={shuffle} fp={fp}: "
                        f"yielded an example that was never written in this "
                        f"form: id={dsops.ex_id_of(ex)}")
                ids.append(dsops.ex_id_of(ex))
            if Counter(ids) != Counter(want):
                ctx.fail(
                    "multiset",
                    ("multiset-mismatch", iface,
                     "shuffled" if shuffle else "unshuffled"),
                    f"{iface} split={split} N={n} S={s} eps={desc['eps']} "
                    f"shuffle={shuffle} file_parallelism={fp} proc={proc} "
                    f"fmt={desc['fmt']}/{desc['compression']}: " +
                    oracles.multiset_diff(ids, want))
            if proc and iface in ("sync", "concurrent", "async", "rust"):
                if iter_common.calls() != n:
                    ctx.fail(
                        "process-once", ("process-record-call-count", iface),
                        f"{iface}: process_record called "
                        f"{iter_common.calls()} times for {n} examples")
            if iface == "tfdata" and not proc:
                # every pass over the SAME returned tf.data object (Keras
                # iterates it once per epoch), also after a pass that was
                # abandoned early, is a full pass
                peek = 1 + len(r["delays"])
                ok, obj = oracles.guarded(
                    ctx, "multiset", ("iteration-raised", iface),
                    f"{iface} split={split} object",
                    lambda: dsops.tfdata_object(ds, split, **opts))
                for again in (("peek", "pass-2", "pass-3") if ok else ()):
                    ok2, got2 = oracles.guarded(
                        ctx, "multiset", ("iteration-raised", iface, again),
                        f"{iface} split={split} same object, {again}",
                        lambda: dsops.iterate_tfdata_object(
                            *obj, n=peek if again == "peek" else None))
                    if not ok2 or again == "peek":
                        continue
                    ids2 = [dsops.ex_id_of(e) for e in got2]
                    if Counter(ids2) != Counter(want):
                        ctx.fail(
                            "multiset",
                            ("multiset-mismatch", iface, "same-object-again"),
                            f"{iface} split={split} N={n} shuffle={shuffle}: "
                            f"{again} over the same tf.data object (after a "
                            f"pass abandoned at {peek}): " +
                            oracles.multiset_diff(ids2, want))
                ctx.label("tfdata-object-again")
            ctx.count("reads")
            ctx.evaluated()
            ctx.label("iface=" + iface, "shuffle" + shuffle_class(shuffle, n),
                      "fp" + fp_class(fp, s))
            if s >= 2 and (shuffle > 0 or fp > 1 or b.nested):
                ctx.nontrivial([
                    iface,
                    min(s, 9), n % desc["eps"],
                    shuffle_class(shuffle, n),
                    fp_class(fp, s), b.nested, proc, desc["fmt"]
                ])
    finally:
        b.cleanup()


# ---------------------------------------------------------------- components
def strategy_components(tier):
    return st.fixed_dictionaries({
        "comp": st.sampled_from([
            "shuffle_buffer", "shuffle_buffer_async", "round_robin",
            "round_robin_async", "lazy_pool"
        ]),
        "lens": st.lists(st.integers(0, 12), min_size=0, max_size=9),
        "n": st.integers(0, 60),
        "b": st.one_of(st.integers(1, 8), st.integers(1, 70)),
        # what the elements are: distinct integers, or objects among which
        # None and other falsy values occur (a caller's transformation may
        # return anything; no value is an in-band end marker)
        "elements": st.sampled_from(["int", "int", "falsy"]),
    })


FALSY = [None, 0, "", (), False, 0.0, b""]


def _element(kind, x):
    if kind == "falsy" and x % 3 != 1:
        return FALSY[x % len(FALSY)]
    return x


def _collect_async(agen):
    async def go():
        return [x async for x in agen]

    return asyncio.run(go())


async def _agen(items):
    for x in items:
        yield x


def run_components(case, ctx):
    from sedpack.io.itertools import (LazyPool, round_robin,
                                      round_robin_async, shuffle_buffer)
    from sedpack.io.itertools.itertools import shuffle_buffer_async
    comp, b = case["comp"], case["b"]
    kind = case.get("elements", "int")
    if comp in ("shuffle_buffer", "shuffle_buffer_async", "lazy_pool"):
        items = [_element(kind, x) for x in range(case["n"])]
        if comp == "lazy_pool" and kind != "int":
            t = 1 + (b - 1) % 5
            with LazyPool(t) as pool:
                out = list(pool.imap_unordered(lambda x: _element(kind, x),
                                               list(range(case["n"]))))
            b = t
        elif comp == "shuffle_buffer":
            out = list(shuffle_buffer(iter(items), buffer_size=b))
        elif comp == "shuffle_buffer_async":
            out = _collect_async(shuffle_buffer_async(_agen(items), b))
        else:
            t = 1 + (b - 1) % 5
            with LazyPool(t) as pool:
                out = list(pool.imap_unordered(lambda x: x * 2 + 1, items))
            out = [(x - 1) // 2 for x in out]
            b = t
        want = items
        nontrivial = len(items) > b
        shape = (len(items) > b, len(items) == b, len(items) % max(b, 1))
    else:
        streams, k = [], 0
        for ln in case["lens"]:
            streams.append([_element(kind, x) for x in range(k, k + ln)])
            k += ln
        want = [x for s in streams for x in s]
        if comp == "round_robin":
            out = list(round_robin((iter(s) for s in streams), buffer_size=b))
        else:
            out = _collect_async(
                round_robin_async(_agen([_agen(s) for s in streams]),
                                  buffer_size=b))
        nontrivial = len(streams) > b and any(
            len(s) == 0 for s in streams) or len(streams) > b
        shape = (len(streams) > b, tuple(min(len(s), 2) for s in streams))
    if Counter(map(repr, out)) != Counter(map(repr, want)):
        ctx.fail("multiset", ("component-multiset-mismatch", comp),
                 f"{comp} b={b} in={want} out={out}: " +
                 oracles.multiset_diff([repr(x) for x in out],
                                       [repr(x) for x in want]))
    ctx.label("comp=" + comp, "elements=" + kind)
    if nontrivial:
        ctx.nontrivial([comp, min(b, 9), shape, kind])


# ------------------------------------------------- shuffled reader under shim
def strategy_lazy(tier):
    return st.fixed_dictionaries({
        "fmt": st.sampled_from(["fb", "fb", "npz"]),
        "eps": st.integers(1, 3),
        "s": st.integers(1, 10),
        "last": st.integers(0, 2),
        "t": st.integers(1, 3),
        "choices": st.lists(st.integers(0, 4), min_size=0, max_size=300),
    })


def run_lazy(case, ctx):
    """as_numpy_iterator_concurrent(shuffle>0) with the interleaving of its
    LazyPool owned by the scheduler shim (vlib.sched)."""
    from vlib import env, sched
    from vlib.core import Inconclusive
    desc = dsops.simple_desc(case["fmt"], "", case["eps"], ["xxh64"],
                             payload=False)
    n = max(1, case["s"] * case["eps"] - min(case["last"], case["eps"] - 1))
    root = env.scratch_dir("c02l")
    try:
        ds = dsops.create_dataset(root / "ds", desc)
        dsops.filler_session(ds, desc, [["train", list(range(n)), None]])
        s = sched.Scheduler(case["choices"])
        s.register_current("c")
        ids = []
        err = None
        with sched.Installed(s):
            try:
                try:
                    for ex in ds.as_numpy_iterator_concurrent(
                            split="train",
                            repeat=False,
                            shuffle=3,
                            file_parallelism=case["t"]):
                        ids.append(dsops.ex_id_of(ex))
                except sched.SchedAbort:
                    pass
                except sched.UnsupportedPrimitive as exc:
                    raise Inconclusive(str(exc)) from exc
                if not s._aborting():  # pylint: disable=protected-access
                    s.drain()
            finally:
                s.join_threads(1.0)
        if s.step_limit_hit:
            raise Inconclusive("step limit")
        what = (f"concurrent shuffled reader, {case['fmt']} N={n} "
                f"eps={case['eps']} file_parallelism={case['t']}")
        if s.deadlock is not None and any(
                name == "c" and not op.startswith("drain")
                for name, op in s.deadlock["waiting"]):
            ctx.fail("multiset", ("no-result-deadlock", "concurrent"),
                     f"{what}: the pass never finishes: {s.deadlock}")
        elif Counter(ids) != Counter(range(n)):
            ctx.fail(
                "multiset", ("multiset-mismatch", "concurrent",
                             "shuffled-scheduled"),
                f"{what}: " + oracles.multiset_diff(ids, list(range(n))) +
                f"; choices {case['choices'][:s.ci]}")
        ctx.label("lazy-sched", f"T={case['t']}")
        shards = -(-n // case["eps"])
        if shards >= 2:
            ctx.nontrivial([
                "lazy-sched", case["fmt"], shards, case["t"],
                "S>2T+2" if shards > 2 * case["t"] + 2 else "S<=2T+2",
                s.worker_switches() >= 2
            ])
    finally:
        dsops.rmtree(root)


STAGES = [
    Stage(name="dataset",
          run=run_dataset,
          strategy=strategy,
          examples={
              "quick": 480,
              "thorough": 5000
          },
          fork=True,
          rust=True,
          timeout=150,
          timeout_violation=hang_is_violation(
              "multiset", "a full pass over a committed split")),
    Stage(name="lazy_sched",
          run=run_lazy,
          strategy=strategy_lazy,
          examples={
              "quick": 1600,
              "thorough": 30000
          }),
    Stage(name="components",
          run=run_components,
          strategy=strategy_components,
          examples={
              "quick": 20000,
              "thorough": 200000
          }),
]
