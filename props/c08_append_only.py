"""C08  Continued writing is append-only.

Domain: as C04 plus the rule ``create_again`` (Dataset.create on the existing
path).  Oracle (reference model = what was written): every session must
complete without raising (all generated inputs are legal); after every
session, per split, Counter(ids read back) == Counter(ids written so far) and
every example carries the content written for its id; ``create_again`` must
raise FileExistsError and leave every file byte-identical.
"""
from __future__ import annotations

from collections import Counter

from props import hist_common
from vlib import dsops, oracles
from vlib.core import Stage, hang_is_violation

ID = "C08"
LEVEL = "exploration"
RULE = ("Same history generator as C04 plus create_again ops. Non-trivial: "
        ">= 2 completed sessions one of which targets something other than "
        "'root after root' (sub-directory new/reused/nested/ancestor or a "
        "multi-writer call) and wrote examples. Distinct by the sequence of "
        "(kind, directory relation, splits, reopened, min(written,3)).")
ASSUMPTIONS = [
    "reads use the synchronous unshuffled reader on the writing handle and "
    "on a fresh handle; other readers are covered by C02/C03",
]


def strategy(tier):
    return hist_common.st_history_case(tier, tfrec_weight=1, create_again=True)


def run_case(case, ctx):
    state = {"creates": 0}

    def after(h, info):
        from sedpack.io import Dataset
        handles = [("kept", h.ds), ("fresh", Dataset(h.root))]
        for hname, ds in handles:
            for split in dsops.SPLITS:
                want = [r["id"] for r in h.model[split]]
                present = split in ds._dataset_info.splits  # pylint: disable=protected-access
                if not want and not present:
                    continue
                if want and not present:
                    ctx.fail("append", ("split-lost", hname),
                             f"{split} has {len(want)} written examples but "
                             f"is absent from the description ({hname} handle)")
                    continue
                if not want:
                    # split present but nothing written: iteration of an empty
                    # selection raises by design; nothing to compare
                    continue
                ok, got = oracles.guarded(
                    ctx, "append", ("read-back-raised", hname),
                    f"after session {info['session']} "
                    f"({info.get('relation')}) split {split} on {hname} "
                    f"handle", lambda: oracles.read_ids_checked(
                        ds, h.desc, split, ctx, "intact"))
                if not ok:
                    continue
                if Counter(got) != Counter(want):
                    ctx.fail(
                        "append", ("multiset-mismatch", hname),
                        f"after session {info['session']} ({info.get('relation')}"
                        f") split {split} on {hname} handle: " +
                        oracles.multiset_diff(got, want))

    def failed(h, exc):
        ctx.fail(
            "session-completes",
            ("session-raised", exc.op.get("k"), type(exc.exc).__name__),
            f"{exc}; previous sessions: "
            f"{[(s['kind'], s.get('relation'), s.get('dir')) for s in h.sessions]}")

    def create_again(h):
        import os
        from pathlib import Path
        from sedpack.io import Dataset, Metadata
        before = dsops.tree_digest(h.root)
        # the existing dataset is named through different spellings
        n = state["creates"]
        state["creates"] += 1
        spelling = ("abs", "rel", "tilde", "str-abs", "rel-dotted")[n % 5]
        old_cwd, old_home = os.getcwd(), os.environ.get("HOME")
        if spelling == "abs":
            target = h.root
        elif spelling == "str-abs":
            target = str(h.root)
        elif spelling == "rel":
            os.chdir(h.root.parent)
            target = Path(h.root.name)
        elif spelling == "rel-dotted":
            os.chdir(h.root)
            target = Path("../" + h.root.name + "/.")
        else:
            os.environ["HOME"] = str(h.root.parent)
            target = "~/" + h.root.name
        ctx.label("create_again:" + spelling)
        try:
            Dataset.create(path=target,
                           metadata=Metadata(description="again"),
                           dataset_structure=dsops.make_structure(h.desc))
        except FileExistsError:
            ctx.label("create_again:refused")
        except BaseException as exc:  # pylint: disable=broad-except
            # any error is a refusal; the tree must still be unchanged
            ctx.label("create_again:refused-other:" + type(exc).__name__)
        else:
            ctx.fail("create-refused", ("create-not-refused", spelling),
                     f"Dataset.create on an existing dataset (path spelled "
                     f"{target!r}) returned normally")
        finally:
            os.chdir(old_cwd)
            if old_home is None:
                os.environ.pop("HOME", None)
            else:
                os.environ["HOME"] = old_home
        if dsops.tree_digest(h.root) != before:
            ctx.fail("create-refused", ("create-changed-files", spelling),
                     f"Dataset.create on an existing dataset (path spelled "
                     f"{target!r}) changed files")
        ctx.count("create_again")

    h = hist_common.run_history(case,
                                ctx,
                                after,
                                on_failed_session=failed,
                                on_create_again=create_again,
                                prefix="c08")
    hist_common.history_labels(h, ctx)
    if hist_common.history_nontrivial(h):
        ctx.nontrivial(h.fingerprint())


STAGES = [
    Stage(name="history",
          run=run_case,
          strategy=strategy,
          examples={
              "quick": 500,
              "thorough": 12000
          },
          fork=True,
          timeout=150,
          timeout_violation=hang_is_violation(
              "session-completes", "a writing session with legal inputs (or reading back after it)"))
]
