"""C20  Reopening or relocating restores the full dataset; newer formats are
refused.

Stage ``describe``: generated descriptions -- Metadata with arbitrary Unicode
text fields, nested JSON custom metadata (strings, bools, null, ints incl.
> 2**63, finite floats incl. -0.0 / 1e308 / subnormals, lists, string-keyed
maps, depth <= 4) at dataset, attribute and shard level, every format /
compression pair, algorithm tuples.  Oracle (round trip): a fresh
Dataset(path) holds a description equal to the writer's under a TYPE-AWARE
deep comparison (bool vs int vs float distinguished, floats by bits), after
creation and after a session that wrote shard-level metadata; shard metadata
seen through shard_info_iterator equals what was passed to write_example.
Stage ``relocate``: the directory is copied or moved to a generated target
(nested, Unicode, blanks) and opened through an absolute path or a path
relative to a generated working directory: it opens, check() passes, every
split iterates to the same sequence as before, a further session succeeds and
the exactness walk (C04's oracle) holds; a copied original is untouched.
Stage ``version``: version triples around the running version written into a
valid dataset_info.json: opening raises iff triple > running version (tuple
comparison is the independent oracle).
"""
from __future__ import annotations

import json
import math
import os
import shutil
import struct
from pathlib import Path

from hypothesis import strategies as st

from props import hist_common
from vlib import dsops, env, history, oracles
from vlib.core import Stage

ID = "C20"
LEVEL = "exploration"
RULE = ("describe: non-trivial if some custom metadata has depth >= 2 or a "
        "text field is non-ASCII; relocate: non-trivial if the target is "
        "nested/Unicode/blank-containing or opened through a relative path; "
        "version: every triple differing from the running version. Distinct "
        "by (sub-domain, JSON value shape / path class / triple relation).")
ASSUMPTIONS = [
    "JSON numbers: ints of any size and finite floats; NaN/inf are not "
    "JSON-representable and not generated",
    "no symlinks are involved in relocation",
]

json_leaf = st.one_of(
    st.none(), st.booleans(), st.integers(-10, 10),
    st.integers(-2**70, 2**70),
    st.sampled_from([2**63, 2**63 - 1, -2**63, 2**64, 2**53 + 1]),
    st.floats(allow_nan=False, allow_infinity=False),
    st.sampled_from([-0.0, 0.0, 1e308, 5e-324, 2.2250738585072014e-308, 1.0,
                     0.1]), st.text(max_size=6))
json_value = st.recursive(
    json_leaf,
    lambda ch: st.one_of(st.lists(ch, max_size=3),
                         st.dictionaries(st.text(max_size=4), ch, max_size=3)),
    max_leaves=8)
json_map = st.dictionaries(st.text(max_size=5), json_value, max_size=3)


def deep_eq(a, b) -> bool:
    if type(a) is not type(b):
        return False
    if isinstance(a, float):
        return struct.pack("<d", a) == struct.pack("<d", b)
    if isinstance(a, dict):
        return a.keys() == b.keys() and all(deep_eq(a[k], b[k]) for k in a)
    if isinstance(a, (list, tuple)):
        return len(a) == len(b) and all(deep_eq(x, y) for x, y in zip(a, b))
    return a == b


def depth(x) -> int:
    if isinstance(x, dict):
        return 1 + max([depth(v) for v in x.values()] + [0])
    if isinstance(x, list):
        return 1 + max([depth(v) for v in x] + [0])
    return 0


def shape_of(x):
    if isinstance(x, dict):
        return {"d": sorted(type(v).__name__ for v in x.values())}
    if isinstance(x, list):
        return ["l"] + [type(v).__name__ for v in x]
    return type(x).__name__


def dump(info) -> dict:
    """pydantic model -> plain python (mode='python' keeps int/float/bool)."""
    return info.model_dump(mode="python")


# ------------------------------------------------------------------- describe
@st.composite
def strategy_describe(draw, tier):
    fmt = draw(st.sampled_from(["fb", "npz", "tfrec"]))
    comp = draw(st.sampled_from(dsops.COMPRESSIONS[fmt]))
    algos = draw(st.lists(st.sampled_from(dsops.HASHES), min_size=0,
                          max_size=5))
    return {
        "fmt": fmt,
        "compression": comp,
        "hashes": algos,
        "eps": draw(st.integers(1, 4)),
        "metadata": {
            "description": draw(st.text(max_size=12)),
            "dataset_license": draw(st.text(max_size=8)),
            "dataset_version": draw(st.text(max_size=6)),
            "download_from": draw(st.text(max_size=6)),
            "custom_metadata": draw(json_map),
        },
        "defaults": draw(st.booleans()),
        "attr_meta": draw(json_map),
        "shard_meta": draw(st.lists(json_map, min_size=1, max_size=3)),
        "session": draw(st.booleans()) or fmt != "tfrec",
        # shard lists larger than the 128 KiB read buffer, full of multi-byte
        # text (a size class of its own for everything that reads them)
        "big_list": fmt != "tfrec" and draw(st.integers(0, 7)) == 0,
        "big_pad": draw(st.integers(0, 40)),
        # the description is edited in place and saved without new shards
        "edit_in_place": draw(st.booleans()),
    }


def run_describe(case, ctx):
    from sedpack.io import Dataset, Metadata
    desc = dsops.simple_desc(case["fmt"], case["compression"], case["eps"],
                             case["hashes"], payload=False)
    desc["attrs"][0]["custom_metadata"] = case["attr_meta"]
    root = env.scratch_dir("c20d")
    try:
        md = Metadata() if case["defaults"] else Metadata(**case["metadata"])
        ok, ds = oracles.guarded(
            ctx, "description-roundtrip", ("create-raised",),
            f"Dataset.create for a {case['fmt']} description in a fresh "
            f"directory", lambda: dsops.create_dataset(root / "ds", desc,
                                                       metadata=md))
        if not ok:
            return

        def compare(stage_name):
            fresh = Dataset(root / "ds")
            a, b = dump(ds._dataset_info), dump(fresh._dataset_info)  # pylint: disable=protected-access
            if not deep_eq(a, b):
                diffs = [
                    k for k in a
                    if not deep_eq(a[k], b.get(k))
                ]
                ctx.fail(
                    "description-roundtrip",
                    ("description-differs", stage_name, ",".join(diffs)),
                    f"{stage_name}: reopened description differs in {diffs}: "
                    f"writer {json.dumps({k: a[k] for k in diffs}, default=str)[:600]} "
                    f"disk {json.dumps({k: b.get(k) for k in diffs}, default=str)[:600]}")
            if not case["defaults"]:
                want = case["metadata"]
                got = dump(fresh._dataset_info)["metadata"]  # pylint: disable=protected-access
                for k, v in want.items():
                    if not deep_eq(got[k], v):
                        ctx.fail(
                            "description-roundtrip",
                            ("metadata-field-differs", k),
                            f"{stage_name}: metadata.{k} written {v!r} "
                            f"reopened {got[k]!r}")
            am = dump(fresh._dataset_info)["dataset_structure"][  # pylint: disable=protected-access
                "saved_data_description"][0]["custom_metadata"]
            if not deep_eq(am, case["attr_meta"]):
                ctx.fail("description-roundtrip",
                         ("attribute-metadata-differs",),
                         f"{stage_name}: attribute custom_metadata written "
                         f"{case['attr_meta']!r} reopened {am!r}")
            return fresh

        def file_is_full(stage_name):
            """The description file holds the WHOLE description (also the
            fields that still have their default value: a reader of another
            library version has other defaults)."""
            on_disk = json.loads(
                (root / "ds" / "dataset_info.json").read_text("utf-8"))
            held = ds._dataset_info.model_dump(mode="json")  # pylint: disable=protected-access

            def missing(a, b, path=""):
                out = []
                if isinstance(a, dict):
                    if not isinstance(b, dict):
                        return [path or "<root>"]
                    for k, v in a.items():
                        if k not in b:
                            out.append(f"{path}.{k}")
                        else:
                            out.extend(missing(v, b[k], f"{path}.{k}"))
                return out

            lost = missing(held, on_disk)
            if lost:
                ctx.fail(
                    "description-roundtrip", ("description-file-incomplete",),
                    f"{stage_name}: dataset_info.json lacks {lost[:6]} of "
                    f"the description the writer holds")

        compare("after-create")
        file_is_full("after-create")
        if case.get("edit_in_place") and not case["defaults"]:
            ds.metadata.description = case["metadata"]["description"] + " (v2)"
            ds.metadata.custom_metadata["edited"] = {"n": [1, 2.5, None],
                                                     "t": "äß"}
            ds.dataset_structure.saved_data_description[0].custom_metadata[
                "unit"] = "µV"
            case["metadata"] = dict(case["metadata"])
            case["metadata"]["description"] = ds.metadata.description
            case["metadata"]["custom_metadata"] = dict(
                ds.metadata.custom_metadata)
            case["attr_meta"] = dict(
                ds.dataset_structure.saved_data_description[0].custom_metadata)
            ds.write_config(updated_infos=[])
            compare("after-in-place-edit")
            file_is_full("after-in-place-edit")
            ctx.label("edit-in-place")
        if case["session"]:
            passed = []
            with ds.filler() as f:
                ex_id = 0
                for m in case["shard_meta"]:
                    for _ in range(2):
                        f.write_example(values=dsops.example_for(desc, ex_id),
                                        split="train",
                                        custom_metadata=m)
                        ex_id += 1
                    if m:
                        if not passed or not deep_eq(passed[-1], m):
                            passed.append(m)
            fresh = compare("after-session")
            seen = []
            for info in fresh.shard_info_iterator("train"):
                m = info.custom_metadata
                if m and (not seen or not deep_eq(seen[-1], m)):
                    seen.append(m)
            # consecutive equal values are one label; compare the sequences
            if len(seen) != len(passed) or not all(
                    deep_eq(a, b) for a, b in zip(seen, passed)):
                ctx.fail(
                    "description-roundtrip", ("shard-metadata-differs",),
                    f"shard custom_metadata passed {passed!r} reopened "
                    f"{seen!r}")
        if case.get("big_list") and case["session"]:
            pad = "x" * case["big_pad"]
            with ds.filler() as f:
                for k in range(45):
                    f.write_example(
                        values=dsops.example_for(desc, 1000 + k),
                        split="test",
                        custom_metadata={"k": k, "note": pad + "数据集" * 1100})
            size = (root / "ds" / "test" / "shards_list.json").stat().st_size
            try:
                fresh2 = Dataset(root / "ds")
                fresh2.check(show_progressbar=False)
                got = [dsops.ex_id_of(e) for e in dsops.read_all(
                    fresh2, "test", "sync", shuffle=0)]
            except Exception as exc:  # pylint: disable=broad-except
                ctx.fail(
                    "relocated-opens", ("big-unicode-shard-list-fails",
                                        type(exc).__name__),
                    f"a dataset whose test/shards_list.json has {size} bytes "
                    f"of non-ASCII shard metadata fails to verify/iterate "
                    f"after reopening: {exc!r}")
            else:
                if got != list(range(1000, 1045)):
                    ctx.fail("relocated-iterates",
                             ("big-unicode-shard-list-misread",), f"{got}")
            compare("after-big-list")
            ctx.label("big-list")
        d = max(depth(case["metadata"]["custom_metadata"]),
                depth(case["attr_meta"]),
                max(depth(m) for m in case["shard_meta"]))
        texts = "".join(str(v) for v in case["metadata"].values())
        ctx.label("fmt=" + case["fmt"], f"depth={min(d, 4)}")
        if d >= 2 or not texts.isascii():
            ctx.nontrivial([
                "describe", case["fmt"],
                shape_of(case["metadata"]["custom_metadata"]),
                shape_of(case["attr_meta"]), [shape_of(m)
                                              for m in case["shard_meta"]],
                texts.isascii()
            ])
    finally:
        dsops.rmtree(root)


# ------------------------------------------------------------------- relocate
name_part = st.one_of(
    st.sampled_from(["moved", "a b", "données", "数据", " lead", "trail ",
                     "x.y", "d-1", "ümlaut dir",
                     # ordinary directory names as far as the file system is
                     # concerned (no user of that name exists)
                     "~archive 2024 (old)", "~verif-no-such-user", "$HOME",
                     "%TEMP%", "-n"]),
    st.text(alphabet=st.characters(blacklist_characters="/\x00",
                                   blacklist_categories=("Cs",)),
            min_size=1,
            max_size=6).filter(
                # ("~" / "~user" mean a home directory to the library)
                lambda s: s not in (".", "..") and not s.startswith("~")))


@st.composite
def strategy_relocate(draw, tier):
    case = draw(
        hist_common.st_history_case(tier,
                                    tfrec_weight=1,
                                    max_ops=3,
                                    busy=True,
                                    hashes=st.sampled_from(
                                        [[], [], ["sha256"],
                                         ["sha256", "xxh64"]])))
    case["target"] = draw(st.lists(name_part, min_size=1, max_size=3))
    case["mode"] = draw(st.sampled_from(["copy", "move"]))
    case["open"] = draw(st.sampled_from(["abs", "rel", "rel-up", "rel-deep"]))
    case["more"] = draw(history.st_filler_op(case["desc"]["eps"], busy=True))
    case["chdir_after_open"] = draw(st.booleans())
    # the copy may live on another file system than the original (and than
    # the system's temporary directory)
    case["cross_fs"] = draw(st.booleans())
    return case


def run_relocate(case, ctx):
    from sedpack.io import Dataset
    root = env.scratch_dir("c20r")
    other = None
    try:
        orig_base = root / "orig"
        if case.get("cross_fs"):
            import tempfile
            tmp = os.environ.get("VERIF_TMP_WORK") or tempfile.gettempdir()
            if os.stat(tmp).st_dev != os.stat(root).st_dev:
                other = Path(tempfile.mkdtemp(prefix="verif-c20-", dir=tmp))
                orig_base = other
                ctx.label("cross-filesystem")
        ok, h = oracles.guarded(
            ctx, "relocated-writes", ("create-raised",),
            "Dataset.create in a fresh directory",
            lambda: history.History(orig_base / "ds", case["desc"]))
        if not ok:
            return
        for op in case["ops"]:
            try:
                h.apply(op)
            except history.SessionFailed as exc:
                ctx.label("aborted_history:" + type(exc.exc).__name__)
                return
        before = {}
        for split in dsops.SPLITS:
            if h.model[split]:
                before[split] = oracles.read_ids_checked(h.ds, h.desc, split,
                                                         ctx, "intact")
        digest = dsops.tree_digest(h.root)
        target = root / "dest"
        for part in case["target"]:
            target = target / part
        try:
            target.parent.mkdir(parents=True, exist_ok=True)
        except (OSError, ValueError):
            ctx.reject("unusable-target-name")
            return
        if case["mode"] == "copy":
            shutil.copytree(h.root, target)
        else:
            shutil.move(str(h.root), str(target))
        # how the relocated dataset is opened
        cwd_choice = {
            "abs": None,
            "rel": target.parent,
            "rel-up": root,
            "rel-deep": target / "train" if (target / "train").is_dir() else
            target.parent,
        }[case["open"]]
        if cwd_choice is None:
            open_path = target
        else:
            os.chdir(cwd_choice)
            open_path = Path(os.path.relpath(target, cwd_choice))
        what = (f"{case['mode']} to {str(target.relative_to(root))!r}, opened "
                f"as {str(open_path)!r} (cwd {case['open']})")
        try:
            moved = Dataset(open_path)
            if case.get("chdir_after_open"):
                # the handle must keep pointing at the dataset it opened
                os.chdir("/")
                what += ", then chdir('/')"
            moved.check(show_progressbar=False)
        except Exception as exc:  # pylint: disable=broad-except
            ctx.fail("relocated-opens", ("relocated-open-or-check-failed",
                                         type(exc).__name__),
                     f"{what}: {exc!r}")
            return
        for split, ids in before.items():
            got = oracles.read_ids_checked(moved, h.desc, split, ctx, "intact")
            if got != ids:
                ctx.fail("relocated-iterates", ("relocated-sequence-differs",),
                         f"{what}: split {split} before {ids} after {got}")
        # a further session on the relocated dataset
        h2 = history.History.__new__(history.History)
        h2.__dict__.update(h.__dict__)
        h2.root = target
        h2.ds = moved
        try:
            h2.apply(case["more"])
        except history.SessionFailed as exc:
            ctx.fail("relocated-writes", ("relocated-session-failed",
                                          type(exc.exc).__name__),
                     f"{what}: a further session raised {exc.exc!r}")
            return
        oracles.exactness_walk(target, h.desc, ctx, handle=h2.ds)
        h2.ds.check(show_progressbar=False)
        for split in dsops.SPLITS:
            want = [r["id"] for r in h2.model[split]]
            if want:
                got = oracles.read_ids_checked(Dataset(target), h.desc, split,
                                               ctx, "intact")
                if sorted(got) != sorted(want):
                    ctx.fail(
                        "relocated-writes", ("relocated-append-mismatch",),
                        f"{what}: {split} " +
                        oracles.multiset_diff(got, want))
        if case["mode"] == "copy":
            if dsops.tree_digest(h.root) != digest:
                ctx.fail("original-untouched", ("original-changed",),
                         f"{what}: the original directory changed")
        name = "/".join(case["target"])
        ctx.label("mode=" + case["mode"], "open=" + case["open"],
                  "fmt=" + case["desc"]["fmt"])
        if len(case["target"]) > 1 or not name.isascii() or " " in name or \
                case["open"] != "abs":
            ctx.nontrivial([
                "relocate", case["mode"], case["open"],
                len(case["target"]),
                name.isascii(), " " in name, case["desc"]["fmt"]
            ])
    finally:
        os.chdir("/")
        dsops.rmtree(root)
        if other is not None:
            dsops.rmtree(other)


# -------------------------------------------------------------------- version
def strategy_version(tier):
    delta = st.sampled_from([-1, 0, 1])
    return st.one_of(
        st.fixed_dictionaries({
            "kind": st.just("delta"),
            "d": st.tuples(delta, delta, delta).map(list)
        }),
        st.fixed_dictionaries({
            "kind": st.just("abs"),
            "v": st.tuples(st.integers(0, 30), st.integers(0, 30),
                           st.integers(0, 30)).map(list)
        }),
        st.fixed_dictionaries({
            "kind": st.just("abs"),
            "v": st.tuples(st.sampled_from([0, 1, 9, 10, 11, 99, 100]),
                           st.sampled_from([0, 1, 9, 10, 11, 99, 100]),
                           st.sampled_from([0, 1, 9, 10, 11, 99,
                                            100])).map(list)
        }),
    )


def run_version(case, ctx):
    import sedpack
    from sedpack.io import Dataset
    running = tuple(int(x) for x in sedpack.__version__.split(".")[:3])
    if case["kind"] == "delta":
        v = tuple(max(0, r + d) for r, d in zip(running, case["d"]))
    else:
        v = tuple(case["v"])
    desc = dsops.simple_desc("fb", "", 2, ["sha256"], payload=False)
    root = env.scratch_dir("c20v")
    try:
        ds = dsops.create_dataset(root / "ds", desc)
        dsops.filler_session(ds, desc, [["train", [0, 1, 2], None]])
        p = root / "ds" / "dataset_info.json"
        doc = json.loads(p.read_text(encoding="utf-8"))
        doc["metadata"]["sedpack_version"] = ".".join(str(x) for x in v)
        p.write_text(json.dumps(doc, indent=2), encoding="utf-8")
        try:
            opened = Dataset(root / "ds")
            raised = None
        except Exception as exc:  # pylint: disable=broad-except
            raised = exc
        newer = v > running
        if newer and raised is None:
            ctx.fail("version-gate", ("newer-version-accepted",),
                     f"dataset recorded by {v} opened by running {running}")
        if not newer and raised is not None:
            ctx.fail("version-gate", ("same-or-older-version-refused",),
                     f"dataset recorded by {v} refused by running {running}: "
                     f"{raised!r}")
        if raised is None:
            ids = [dsops.ex_id_of(e)
                   for e in dsops.read_all(opened, "train", "sync", shuffle=0)]
            if ids != [0, 1, 2]:
                ctx.fail("version-gate", ("older-version-misread",), f"{ids}")
        rel = "newer" if newer else ("same" if v == running else "older")
        ctx.label("version:" + rel)
        if v != running:
            ctx.nontrivial(["version", list(v)])
    finally:
        dsops.rmtree(root)


STAGES = [
    Stage(name="describe",
          run=run_describe,
          strategy=lambda tier: strategy_describe(tier),
          examples={
              "quick": 1500,
              "thorough": 15000
          },
          fork=True),
    Stage(name="relocate",
          run=run_relocate,
          strategy=lambda tier: strategy_relocate(tier),
          examples={
              "quick": 300,
              "thorough": 3000
          },
          fork=True),
    Stage(name="version",
          run=run_version,
          strategy=strategy_version,
          examples={
              "quick": 1500,
              "thorough": 15000
          }),
]
