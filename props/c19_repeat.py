"""C19  Repeating iteration cycles through the whole split forever.

Datasets (N <= 40 examples, 1..8 shards, 1..3 splits) x interface x shuffle x
parallelism with repeat=True (the default); a prefix of m*N + r elements
(m in 2..4) is taken.  Oracle: the stream does not end within the prefix;
every element is an example of the selected split (id and content);
unshuffled: prefix[i] == one_pass[i mod N] where one_pass is the same
interface's repeat=False pass; Rust interface (shuffled or not): every
consecutive block of N ids is a permutation of the split.
Stage ``pause``: the consumer pauses for 11 / 21 s between two elements (idle
timeouts of worker threads); the stream must go on.
Stage ``long``: the same oracle on a tiny split (1..3 examples) consumed for
1200 (thorough: up to 6000) epochs -- anything that accumulates per epoch
(nesting depth, open files, threads) ends an "endless" stream only there.
"""
from __future__ import annotations

from collections import Counter

from hypothesis import strategies as st

from props import iter_common
from vlib import dsops, history, oracles
from vlib.core import Stage

ID = "C19"
LEVEL = "exploration"
RULE = ("Hypothesis histories (1..2 busy sessions, eps 1..5) x 2..6 reads "
        "(interface, split, shuffle, file_parallelism, m in 2..4, r). "
        "Non-trivial: m >= 2 and the split has >= 2 shards. Distinct by "
        "(interface, S, shuffle class, m, format).")
ASSUMPTIONS = [
    "streams are consumed through a prefix only (infinite by specification)",
]


@st.composite
def strategy_case(draw, tier):
    desc = draw(iter_common.st_iter_desc(tier))
    ops = draw(
        history.st_ops(desc["eps"],
                       max_ops=2,
                       multi=True,
                       metas=False,
                       busy=True,
                       single_process=True))
    reads = draw(
        st.lists(st.fixed_dictionaries({
            "iface": st.integers(0, 9),
            "split": st.integers(0, 2),
            "shuffle": st.sampled_from([0, 0, 0, 1, 2, 5, 100]),
            "fp": st.sampled_from([["abs", 1], ["abs", 2], ["S", -1],
                                   ["S", 0], ["S", 1], ["abs", 5]]),
            "m": st.integers(2, 4),
            "r": st.integers(0, 6),
            "default_repeat": st.booleans(),
            "batch": st.sampled_from([0, 0, 1, 2, 3, 5, 8]),
        }),
                 min_size=2,
                 max_size=6))
    pair = draw(
        st.one_of(
            st.none(),
            st.fixed_dictionaries({
                "ifaces": st.tuples(st.integers(0, 9),
                                    st.integers(0, 9)).map(list),
                "splits": st.tuples(st.integers(0, 2),
                                    st.integers(0, 2)).map(list),
                "fp": st.integers(1, 3),
                "pattern": st.lists(st.integers(0, 1), min_size=6,
                                    max_size=60),
                # the first of the two streams may be a shuffled one
                "shuffle0": st.sampled_from([0, 0, 3]),
            })))
    reent = draw(
        st.one_of(
            st.none(),
            st.fixed_dictionaries({
                "split": st.integers(0, 2),
                "fp": st.integers(1, 3),
                "k1": st.integers(0, 9),
                "k2": st.integers(0, 9),
                "finalise": st.sampled_from(["close", "del", "keep"]),
            })))
    return {"desc": desc, "ops": ops, "reads": reads, "pair": pair,
            "reent": reent}


@st.composite
def strategy_long(draw, tier):
    """"Forever": a tiny split consumed for very many epochs (what a small
    hold-out split sees during a long training run).  Same case format and
    oracle as `repeat`; one read per applicable interface."""
    # (not tfrec: its Python readers need 50 ms to open one shard, i.e.
    # minutes per stream of this length)
    desc = draw(iter_common.st_iter_desc(tier, formats=["fb"] * 5 + ["npz"] * 2,
                                         eps=st.integers(1, 2)))
    n = draw(st.integers(1, 3))
    epochs = 1200 if tier == "quick" else draw(
        st.sampled_from([1200, 2500, 6000]))
    ops = [{"k": "filler", "dir": {"rel": "root", "pick": 0},
            "runs": [[0, n, 0, None]], "reopen": False}]
    n_if = len([i for i in dsops.INTERFACES
                if dsops.interface_applicable(i, desc)])
    first = draw(st.integers(0, 9))
    reads = [{
        "iface": first + k,
        "split": 0,
        "shuffle": draw(st.sampled_from([0, 0, 2])),
        "fp": ["abs", draw(st.integers(1, 2))],
        "m": epochs,
        "r": draw(st.integers(0, 2)),
        "default_repeat": draw(st.booleans()),
        "batch": draw(st.sampled_from([0, 0, 3])),
    } for k in range(n_if if tier == "thorough" else min(n_if, 2))]
    return {"desc": desc, "ops": ops, "reads": reads, "pair": None}


def run_case(case, ctx):
    from sedpack.io import Dataset
    b = iter_common.BuiltDataset(case, ctx, "c19")
    try:
        if not b.ok:
            return
        desc = b.desc
        fresh = Dataset(b.h.root)
        ctx.label("fmt=" + desc["fmt"])
        for r in case["reads"]:
            iface = iter_common.resolve_iface(r["iface"], desc)
            split = b.split_for(r["split"])
            n, s = b.n_examples(split), b.n_shards(split)
            if n > 60:
                continue
            fp = b.resolve_fp(r["fp"], split)
            shuffle = r["shuffle"]
            opts = {"shuffle": shuffle}
            if not r["default_repeat"]:
                opts["repeat"] = True
            if dsops.iface_accepts(iface, "file_parallelism"):
                opts["file_parallelism"] = fp
            if iface == "tfdata" and r.get("batch"):
                opts["batch_size"] = r["batch"]
            want_len = r["m"] * n + r["r"]
            what = (f"{iface} split={split} N={n} S={s} shuffle={shuffle} "
                    f"file_parallelism={fp} fmt={desc['fmt']} "
                    f"batch_size={opts.get('batch_size', '-')}")
            ok, prefix = oracles.guarded(
                ctx, "endless", ("iteration-raised", iface), what,
                lambda: dsops.read_prefix(b.h.ds, split, iface, want_len,
                                          **opts))
            if not ok:
                continue
            if len(prefix) != want_len:
                ctx.fail("endless", ("stream-ended", iface),
                         f"{what}: the repeating stream ended after "
                         f"{len(prefix)} of {want_len} elements")
            members = {rec["id"] for rec in b.h.model[split]}
            ids = []
            for ex in prefix:
                i = dsops.ex_id_of(ex)
                if i not in members or not dsops.example_matches(desc, ex):
                    ctx.fail("membership", ("foreign-example", iface),
                             f"{what}: yielded id {i} which is not an example "
                             f"of {split}")
                ids.append(i)
            if shuffle == 0:
                # the one-pass sequence, taken from a freshly opened handle
                # (C03: identical on every handle) so that nothing the kept
                # handle did before can bend both sides the same way
                one = [
                    dsops.ex_id_of(e) for e in dsops.read_all(
                        fresh, split, iface, **{
                            **opts, "repeat": False, "batch_size": 0
                        } if iface == "tfdata" else {
                            **opts, "repeat": False
                        })
                ]
                if Counter(one) != Counter(members) or len(one) != n:
                    pass  # C02's business
                else:
                    for i, got in enumerate(ids):
                        if got != one[i % n]:
                            ctx.fail(
                                "periodic", ("not-periodic", iface),
                                f"{what}: element {i} is {got}, the one-pass "
                                f"sequence repeated gives {one[i % n]} "
                                f"(epoch {i // n}, offset {i % n})")
            if iface == "rust":
                for e in range(len(ids) // n):
                    block = ids[e * n:(e + 1) * n]
                    if Counter(block) != Counter(members):
                        ctx.fail(
                            "epoch-permutation", ("rust-epoch-not-permutation",),
                            f"{what}: epoch {e} is {block}, not a permutation "
                            f"of the {n} examples")
            if iface == "tfdata" and shuffle == 0 and len(ids) == want_len:
                # iterating the SAME returned tf.data object again must start
                # the periodic stream again
                ok, obj = oracles.guarded(
                    ctx, "endless", ("iteration-raised", iface), what,
                    lambda: dsops.tfdata_object(b.h.ds, split, **opts))
                if ok:
                    for again in (1, 2):
                        ok2, got = oracles.guarded(
                            ctx, "endless", ("iteration-raised", iface),
                            what + f" (object pass {again})",
                            lambda: dsops.iterate_tfdata_object(
                                obj[0], obj[1], want_len))
                        if ok2 and [dsops.ex_id_of(e) for e in got] != ids:
                            ctx.fail(
                                "periodic", ("re-iterated-object-differs",
                                             iface),
                                f"{what}: pass {again} over the same "
                                f"tf.data object yields "
                                f"{[dsops.ex_id_of(e) for e in got][:12]}, a "
                                f"fresh one {ids[:12]}")
            ctx.count("prefixes")
            ctx.evaluated()
            ctx.label("iface=" + iface)
            if r["m"] >= 1000:
                ctx.label("epochs>=1000")
                ctx.nontrivial([iface, "long", n, s, shuffle, r["m"],
                                desc["fmt"]])
            elif s >= 2:
                ctx.nontrivial([
                    iface,
                    min(s, 8), "0" if shuffle == 0 else
                    ("<N" if shuffle < n else ">=N"), r["m"], desc["fmt"]
                ])
        # ---- two repeating iterators alive at once, advanced alternately --
        # (not for tfrec: its Python readers hold a tf.device scope inside the
        # generator, which TensorFlow only allows to be nested, not
        # interleaved -- outside what the property quantifies over)
        pair = case.get("pair")
        if pair is not None and desc["fmt"] != "tfrec":
            streams = []
            for k in (0, 1):
                # prefer the native reader: it keeps per-iterator global state
                iface = iter_common.resolve_iface(
                    pair["ifaces"][k], desc,
                    only=("rust", "sync", "concurrent", "async"))
                split = b.split_for(pair["splits"][k])
                if b.n_examples(split) > 60:
                    streams = []
                    break
                opts = {"shuffle": pair.get("shuffle0", 0) if k == 0 else 0,
                        "repeat": True}
                if dsops.iface_accepts(iface, "file_parallelism"):
                    opts["file_parallelism"] = pair["fp"]
                one = [
                    dsops.ex_id_of(e) for e in dsops.read_all(
                        fresh, split, iface,
                        **{**opts, "repeat": False, "shuffle": 0})
                ]
                streams.append({
                    "iface": iface, "split": split, "one": one, "pos": 0,
                    "shuffled": bool(opts["shuffle"]),
                    "it": dsops.open_iter(b.h.ds, split, iface, **opts)
                })
            try:
                if streams:
                    what = (f"two live repeating iterators "
                            f"{[(x['iface'], x['split']) for x in streams]} "
                            f"pattern {pair['pattern']}")
                    rounds = pair["pattern"] * 4
                    for which in rounds:
                        st_ = streams[which]
                        ok, ex = oracles.guarded(
                            ctx, "endless", ("interleaved-iteration-raised",
                                             st_["iface"]), what,
                            lambda: next(st_["it"]))
                        if not ok:
                            break
                        want = st_["one"][st_["pos"] % len(st_["one"])]
                        if st_["shuffled"]:
                            if dsops.ex_id_of(ex) not in st_["one"]:
                                ctx.fail(
                                    "membership", ("foreign-example",
                                                   st_["iface"]),
                                    f"{what}: shuffled stream {which} yields "
                                    f"id {dsops.ex_id_of(ex)}")
                        elif dsops.ex_id_of(ex) != want:
                            ctx.fail(
                                "periodic", ("interleaved-not-periodic",
                                             st_["iface"]),
                                f"{what}: stream {which} ({st_['iface']}, "
                                f"{st_['split']}) element {st_['pos']} is "
                                f"{dsops.ex_id_of(ex)}, expected {want}")
                        st_["pos"] += 1
                    ctx.label("pair")
                    ctx.nontrivial([
                        "pair", [x["iface"] for x in streams],
                        [min(len(x["one"]), 9) for x in streams],
                        len(pair["pattern"])
                    ])
            finally:
                for st_ in reversed(streams):
                    close = getattr(st_["it"], "close", None)
                    if close:
                        close()
        reentrant_generator(case, ctx, b)
    finally:
        b.cleanup()


def reentrant_generator(case, ctx, b):
    """RustGenerator is documented as re-entrant for
    tf.data.Dataset.from_generator, which calls it again without exhausting
    (or closing) the iterable of the previous call and drops that one at some
    later moment.  The stream of the second call must still be the one-pass
    sequence repeated periodically (from whatever offset it starts at)."""
    import gc
    desc, reent = b.desc, case.get("reent")
    if reent is None or not dsops.interface_applicable("rust", desc):
        return
    split = b.split_for(reent["split"])
    n = b.n_examples(split)
    if not 0 < n <= 60:
        return
    from sedpack.io.dataset_iteration import RustGenerator
    one = [dsops.ex_id_of(e) for e in dsops.read_all(
        b.h.ds, split, "rust", shuffle=0, repeat=False,
        file_parallelism=reent["fp"])]
    if len(one) != n:
        return  # C02's business
    what = (f"RustGenerator re-entered: split={split} N={n} first call "
            f"consumed {reent['k1']}, second {reent['k2']}, then the first "
            f"is finalised ({reent['finalise']}), file_parallelism="
            f"{reent['fp']}")
    want_len = 3 * n + 2

    def scenario():
        ids = []
        with RustGenerator(dataset=b.h.ds, split=split, repeat=True,
                           shuffle=0, file_parallelism=reent["fp"]) as gen:
            g1 = iter(gen())
            for _ in range(reent["k1"]):
                next(g1)
            g2 = iter(gen())
            for _ in range(min(reent["k2"], want_len)):
                ids.append(dsops.ex_id_of(next(g2)))
            if reent["finalise"] == "close":
                g1.close()
            elif reent["finalise"] == "del":
                del g1
                gc.collect()
            while len(ids) < want_len:
                ids.append(dsops.ex_id_of(next(g2)))
            g2.close()
        return ids

    ok, ids = oracles.guarded(ctx, "endless", ("reentrant-generator-raised",),
                              what, scenario)
    if not ok:
        return
    if not any(all(ids[i] == one[(off + i) % n] for i in range(len(ids)))
               for off in range(n)):
        ctx.fail("periodic", ("reentrant-generator-not-periodic",),
                 f"{what}: the second call yields {ids}, one pass is {one}")
    ctx.label("reentrant-generator")
    ctx.evaluated()
    ctx.nontrivial(["reent", min(n, 9), reent["k1"] % n, reent["k2"] % n,
                    reent["finalise"]])


@st.composite
def strategy_pause(draw, tier):
    """A consumer that does something else for a while between two elements
    (validation, checkpointing): the stream is still endless afterwards."""
    desc = draw(iter_common.st_iter_desc(tier, formats=["fb"] * 3 + ["npz"],
                                         eps=st.integers(1, 2)))
    return {
        "desc": desc,
        "n": draw(st.integers(6, 14)),
        "iface": draw(st.integers(0, 9)),
        "shuffle": draw(st.sampled_from([0, 2, 5])),
        "fp": draw(st.integers(1, 3)),
        "before": draw(st.integers(1, 9)),
        "pause_s": draw(st.sampled_from([11, 11, 21])),
    }


def run_pause(case, ctx):
    import time
    desc = case["desc"]
    root = __import__("vlib.env", fromlist=["x"]).scratch_dir("c19p")
    try:
        ds = dsops.create_dataset(root / "ds", desc)
        n = case["n"]
        dsops.filler_session(ds, desc, [["train", list(range(n)), None]])
        iface = iter_common.resolve_iface(case["iface"], desc)
        opts = {"shuffle": case["shuffle"], "repeat": True}
        if dsops.iface_accepts(iface, "file_parallelism"):
            opts["file_parallelism"] = case["fp"]
        what = (f"{iface} N={n} shuffle={case['shuffle']} file_parallelism="
                f"{case['fp']} fmt={desc['fmt']}: {case['before']} elements, "
                f"{case['pause_s']} s pause, then {3 * n + 40} more")

        def scenario():
            it = dsops.open_iter(ds, "train", iface, **opts)
            out = []
            try:
                for _ in range(case["before"]):
                    out.append(dsops.ex_id_of(next(it)))
                time.sleep(case["pause_s"])
                for _ in range(3 * n + 40):
                    out.append(dsops.ex_id_of(next(it)))
            finally:
                close = getattr(it, "close", None)
                if close:
                    close()
            return out

        ok, ids = oracles.guarded(ctx, "endless",
                                  ("stream-ended-after-pause", iface), what,
                                  scenario)
        if ok and any(not 0 <= i < n for i in ids):
            ctx.fail("membership", ("foreign-example", iface), f"{what}: {ids}")
        ctx.label("pause", "iface=" + iface)
        ctx.evaluated()
        ctx.nontrivial(["pause", iface, case["shuffle"] > 0, case["pause_s"],
                        desc["fmt"]])
    finally:
        dsops.rmtree(root)


def _stalls(case):
    return ("endless", ("stream-stalls",),
            f"a repeating stream stopped delivering examples (no result "
            f"within the watchdog): desc={case['desc']['fmt']} ops="
            f"{case['ops']} reads={case['reads']}")


STAGES = [
    Stage(name="pause",
          run=run_pause,
          strategy=lambda tier: strategy_pause(tier),
          examples={
              "quick": 16,
              "thorough": 160
          },
          fork=True,
          rust=True,
          timeout=150,
          timeout_violation=lambda case: (
              "endless", ("stream-stalls-after-pause",),
              f"a repeating stream did not deliver after a pause: {case}")),
    Stage(name="long",
          run=run_case,
          strategy=lambda tier: strategy_long(tier),
          examples={
              "quick": 32,
              "thorough": 240
          },
          fork=True,
          rust=True,
          timeout=300,
          timeout_violation=_stalls),
    Stage(name="repeat",
          run=run_case,
          strategy=lambda tier: strategy_case(tier),
          examples={
              "quick": 400,
              "thorough": 4000
          },
          fork=True,
          rust=True,
          timeout=150,
          timeout_violation=lambda case: (
              "endless", ("stream-stalls",),
              f"a repeating stream stopped delivering examples (no result "
              f"within the watchdog): desc={case['desc']['fmt']} ops="
              f"{case['ops']} reads={case['reads']}"))
]
