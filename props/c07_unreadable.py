"""C07  Unreadable shards surface as errors: never a hang, never silent
truncation.

Finite product (quick: a stratified grid covering every (format, compression,
interface, damage, shuffle) combination once plus Hypothesis-sampled cells;
thorough: the whole matrix enumerated):
format x compression x dataset (2..6 shards) x damaged shard (first, middle,
last) x damage (deleted; emptied; garbage not starting with the codec's magic;
truncated to a generated prefix; tiny / all-0xFF for uncompressed fb) x
interface x shuffle {0,>0} x file_parallelism {1,2,S,S+2} x repeat
{False, True} x with / without a caller-supplied (identity) process_record.
Ground truth for "rejected by the decoder": the damaged file is first decoded
ALONE by that interface's own single-shard decoder (Python reader class;
Rust: a one-shard native iterator, rejection observed as a worker panic on
stderr; tf.data: a one-file TFRecordDataset + parse).  Only damage that the
decoder demonstrably rejects (or a missing file) creates an obligation.
Oracle: the pass must end by raising to the consumer.  Ending normally (or,
with repeat=True, delivering 40 epochs worth of examples without an error) is
"silent skip"; not finishing within the watchdog (and again within the doubled
watchdog) is "hang".
"""
from __future__ import annotations

import os
import tempfile

from hypothesis import strategies as st

from vlib import dsops, env
from vlib.core import Stage

ID = "C07"
LEVEL = "fault_enumeration"
RULE = ("cells of format x codec x S x damaged position x damage kind x "
        "interface x shuffle x file_parallelism x repeat; quick draws cells "
        "with Hypothesis, thorough enumerates the whole matrix. A cell is "
        "non-trivial (obligation-carrying) if the file is missing or the "
        "interface's own single-shard decoder rejects it. Distinct by the "
        "whole cell tuple.")
ASSUMPTIONS = [
    "watchdog: 90 s per cell (median cell < 1 s), hang reported only after a "
    "second run with 180 s",
    "damage the decoder accepts (e.g. an emptied uncompressed TFRecord file "
    "is a valid empty file) creates no obligation",
]

DAMAGES = ["deleted", "emptied", "garbage", "truncated", "tiny", "allff"]
POSITIONS = ["first", "middle", "last"]
GARBAGE = (b"\x07verif-not-a-shard\x00\xfe" * 9)


def identity_record(record):
    """process_record that changes nothing (works for dicts of arrays and of
    tensors alike)."""
    return record


def cells_for(fmt):
    return dsops.COMPRESSIONS[fmt]


def strategy(tier):
    return st.fixed_dictionaries({
        "fmt": st.sampled_from(["fb", "fb", "fb", "npz", "npz", "tfrec"]),
        "comp": st.integers(0, 6),
        "s": st.integers(2, 6),
        "eps": st.integers(1, 3),
        "pos": st.sampled_from(POSITIONS),
        "damage": st.sampled_from(DAMAGES),
        "frac": st.integers(1, 99),
        "iface": st.integers(0, 9),
        "shuffle": st.sampled_from([0, 0, 3]),
        "fp": st.sampled_from(["1", "2", "S", "S+2"]),
        "repeat": st.sampled_from([False, False, True]),
        # a caller-supplied transformation (identity) is part of the pipeline
        "proc": st.sampled_from([False, False, True]),
    })


def enumerate_matrix(tier):
    if tier != "thorough":
        return []
    cells = []
    for fmt in ("fb", "npz", "tfrec"):
        for ci, _ in enumerate(dsops.COMPRESSIONS[fmt]):
            for pos in POSITIONS:
                for damage in DAMAGES:
                    if damage in ("tiny", "allff") and fmt != "fb":
                        continue
                    for iface in range(len(_ifaces(fmt, ci))):
                        for shuffle in (0, 3):
                            for fp in ("1", "2", "S", "S+2"):
                                for repeat in (False, True):
                                    cells.append({
                                        "fmt": fmt,
                                        "comp": ci,
                                        "s": 4,
                                        "eps": 2,
                                        "pos": pos,
                                        "damage": damage,
                                        "frac": 50,
                                        "iface": iface,
                                        "shuffle": shuffle,
                                        "fp": fp,
                                        "repeat": repeat,
                                        "exact_iface": True,
                                    })
    return cells


def enumerate_grid(tier):
    """Quick tier: every (format, compression, interface, damage, shuffle)
    cell once (stratified -- no cell of that projection is left to chance: a
    decoder reports damage in its own way, e.g. lz4 raises RuntimeError, bz2
    OSError, zlib zlib.error); repeat, position, shard count and parallelism
    are derived from VERIF_SEED and the cell index."""
    import hashlib
    seed = os.environ.get("VERIF_SEED", "1")
    cells = []
    for fmt in ("fb", "npz", "tfrec"):
        for ci in range(len(dsops.COMPRESSIONS[fmt])):
            for iface in range(len(_ifaces(fmt, ci))):
                for damage in DAMAGES:
                    if damage in ("tiny", "allff") and (fmt != "fb" or ci):
                        continue
                    for shuffle in (0, 3):
                        h = int.from_bytes(
                            hashlib.sha1(
                                f"{seed}|{fmt}|{ci}|{iface}|{damage}|"
                                f"{shuffle}".encode()).digest()[:6], "big")
                        cells.append({
                            "fmt": fmt,
                            "comp": ci,
                            "s": 2 + (h >> 8) % 5,
                            "eps": 1 + (h >> 12) % 3,
                            "pos": POSITIONS[(h >> 16) % 3],
                            "damage": damage,
                            "frac": 1 + (h >> 20) % 99,
                            "iface": iface,
                            "shuffle": shuffle,
                            "fp": ["1", "2", "S", "S+2"][(h >> 28) % 4],
                            "repeat": bool((h >> 32) % 3 == 0),
                            "proc": bool((h >> 36) % 3 == 0),
                            "exact_iface": True,
                        })
    return cells


def _ifaces(fmt, ci):
    desc = {"fmt": fmt, "compression": dsops.COMPRESSIONS[fmt][ci % len(
        dsops.COMPRESSIONS[fmt])], "attrs": []}
    return [i for i in dsops.INTERFACES if dsops.interface_applicable(i, desc)]


def resolve(case):
    fmt = case["fmt"]
    comps = dsops.COMPRESSIONS[fmt]
    comp = comps[case["comp"] % len(comps)]
    desc = dsops.simple_desc(fmt, comp, case["eps"], ["xxh64"], payload=True)
    if case.get("exact_iface"):
        ifs = _ifaces(fmt, case["comp"])
        iface = ifs[case["iface"] % len(ifs)]
    else:
        from props import iter_common
        iface = iter_common.resolve_iface(case["iface"], desc)
    s = case["s"]
    fp = {"1": 1, "2": 2, "S": s, "S+2": s + 2}[case["fp"]]
    damage = case["damage"]
    if damage in ("tiny", "allff") and not (fmt == "fb" and comp == ""):
        damage = "garbage"
    return desc, iface, fp, damage


def damage_file(path, damage, frac):
    data = path.read_bytes()
    if damage == "deleted":
        path.unlink()
    elif damage == "emptied":
        path.write_bytes(b"")
    elif damage == "garbage":
        path.write_bytes(GARBAGE)
    elif damage == "truncated":
        path.write_bytes(data[:max(1, len(data) * frac // 100)])
    elif damage == "tiny":
        path.write_bytes(data[:1 + frac % 3])
    elif damage == "allff":
        path.write_bytes(b"\xff" * len(data))
    else:
        raise ValueError(damage)


def decoder_rejects(iface, desc, path) -> bool:
    """Decode the damaged file alone with the interface's own decoder."""
    structure = dsops.make_structure(desc)
    fmt = desc["fmt"]
    if iface == "rust":
        from sedpack import _sedpack_rs
        # rejection = the native worker panics; observe it on fd 2
        with tempfile.TemporaryFile() as tmp:
            saved = os.dup(2)
            os.dup2(tmp.fileno(), 2)
            raised = False
            try:
                try:
                    with _sedpack_rs.RustIter(files=[str(path)],
                                              repeat=False,
                                              threads=1,
                                              compression=desc["compression"]
                                              ) as it:
                        for _ in it:
                            pass
                except BaseException:  # pylint: disable=broad-except
                    raised = True
            finally:
                os.dup2(saved, 2)
                os.close(saved)
            tmp.seek(0)
            err = tmp.read().decode(errors="replace")
        return raised or "panicked" in err
    if iface == "tfdata" and fmt == "tfrec":
        import tensorflow as tf
        from sedpack.io.tfrec.tfdata import get_from_tfrecord
        try:
            dec = get_from_tfrecord(structure.saved_data_description)
            for _ in tf.data.TFRecordDataset(
                    str(path),
                    compression_type=desc["compression"]).map(dec):
                pass
            return False
        except Exception:  # pylint: disable=broad-except
            return True
    from sedpack.io.flatbuffer import IterateShardFlatBuffer
    from sedpack.io.npz import IterateShardNP
    from sedpack.io.tfrec import IterateShardTFRec
    cls = {
        "fb": IterateShardFlatBuffer,
        "npz": IterateShardNP,
        "tfrec": IterateShardTFRec
    }[fmt]
    reader = cls(structure, None) if fmt != "tfrec" else cls(
        structure, None, num_parallel_calls=1)
    try:
        if iface == "async":
            import asyncio

            async def go():
                async for _ in reader.iterate_shard_async(path):
                    pass

            asyncio.run(go())
        else:
            for _ in reader.iterate_shard(path):
                pass
        return False
    except Exception:  # pylint: disable=broad-except
        return True


def signature_class(iface, shuffle):
    if iface == "concurrent":
        return "concurrent-shuffled" if shuffle else "concurrent-ordered"
    return iface


def run_case(case, ctx):
    desc, iface, fp, damage = resolve(case)
    s, eps = case["s"], case["eps"]
    root = env.scratch_dir("c07")
    try:
        ds = dsops.create_dataset(root / "ds", desc)
        n = s * eps
        dsops.filler_session(ds, desc, [["train", list(range(n)), None]])
        infos = list(ds.shard_info_iterator("train"))
        assert len(infos) == s
        idx = {"first": 0, "middle": s // 2, "last": s - 1}[case["pos"]]
        victim = root / "ds" / infos[idx].file_infos[0].file_path
        lost = {
            dsops.ex_id_of(e) for e in dsops.decode_shard(victim, desc)
        }
        damage_file(victim, damage, case["frac"])
        obligation = damage == "deleted" or decoder_rejects(
            iface, desc, victim)
        cell = [
            desc["fmt"], desc["compression"], s, case["pos"], damage, iface,
            case["shuffle"], case["fp"], case["repeat"],
            bool(case.get("proc"))
        ]
        ctx.label("iface=" + iface, "damage=" + damage, "fmt=" + desc["fmt"])
        if not obligation:
            ctx.label("accepted-by-decoder")
            ctx.count("accepted_by_decoder")
            return
        opts = {"shuffle": case["shuffle"], "repeat": case["repeat"]}
        if dsops.iface_accepts(iface, "file_parallelism"):
            opts["file_parallelism"] = fp
        if case.get("proc"):
            opts["process_record"] = identity_record
            ctx.label("process_record")
        limit = None if not case["repeat"] else 40 * n
        got = []
        raised = None
        try:
            it = dsops.open_iter(ds, "train", iface, **opts)
            try:
                for ex in it:
                    got.append(dsops.ex_id_of(ex))
                    if limit is not None and len(got) >= limit:
                        break
            finally:
                close = getattr(it, "close", None)
                if close:
                    try:
                        close()
                    except BaseException:  # pylint: disable=broad-except
                        pass
        except BaseException as exc:  # pylint: disable=broad-except
            if type(exc).__name__ in ("KeyboardInterrupt", "SystemExit"):
                raise
            raised = exc
        ctx.count("obligations")
        what = (f"{iface} fmt={desc['fmt']}/{desc['compression']!r} S={s} "
                f"damaged={case['pos']}({damage}) shuffle={case['shuffle']} "
                f"file_parallelism={fp} repeat={case['repeat']}")
        if raised is None:
            seen_lost = sorted(lost & set(got))
            ctx.fail(
                "raises", ("silent-skip", signature_class(iface,
                                                          case["shuffle"]),
                           "repeat" if case["repeat"] else "one-pass"),
                f"{what}: the iteration delivered {len(got)} examples and "
                f"{'was still going' if case['repeat'] else 'ended normally'}"
                f" without an error; examples of the damaged shard seen: "
                f"{seen_lost}")
        else:
            ctx.label("raised:" + type(raised).__name__)
        ctx.nontrivial(cell)
    finally:
        dsops.rmtree(root)


def on_timeout(case):
    desc, iface, fp, damage = resolve(case)
    return ("bounded-time", ("hang", signature_class(iface, case["shuffle"])),
            f"{iface} fmt={desc['fmt']}/{desc['compression']!r} S={case['s']} "
            f"damaged={case['pos']}({damage}) shuffle={case['shuffle']} "
            f"file_parallelism={fp} repeat={case['repeat']}")


STAGES = [
    Stage(name="grid",
          run=run_case,
          enumerate=enumerate_grid,
          fork=True,
          rust=True,
          timeout=90,
          timeout_violation=on_timeout),
    Stage(name="cells",
          run=run_case,
          strategy=strategy,
          examples={
              "quick": 450,
              "thorough": 4000
          },
          fork=True,
          rust=True,
          timeout=90,
          timeout_violation=on_timeout),
    Stage(name="matrix",
          run=run_case,
          enumerate=enumerate_matrix,
          exhaustive=True,
          fork=True,
          rust=True,
          timeout=90,
          timeout_violation=on_timeout),
]
