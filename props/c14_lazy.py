"""C14  Iteration is lazy: read-ahead is bounded by the configured buffers.

Stage ``components``: counting sources (finite and infinite) through
shuffle_buffer(b), round_robin(b), their async twins and
LazyPool(T).imap_unordered; after the j-th delivered element the number of
source elements consumed must be <= j + bound(b or T) + 1, with the bound
taken from the property's mechanism list (shuffle buffer b; round robin b open
inner iterators; lazy pool 2T+2).  An infinite source is wrapped by a guard
that raises once consumption exceeds the bound by a large slack, so eagerness
is an exception, not a hang.
Stage ``pmap``: the same for the Rust parallel_map(T) (bound T) through the
driver binary linked against /repo/rust.
Stage ``dataset``: datasets of S and 4S equally sized shards read with
repeat=True through every interface; k examples are taken, the iterator is
closed; the number of shard-file opens seen by inotify must be <=
ceil(k/eps) + c(T, shuffle, prefetch), a function of configured values only.
Taking k examples must return (a child that never answers is a violation only
after a solitary re-run with a doubled watchdog).
"""
from __future__ import annotations

import asyncio
import math
import os
import subprocess

from hypothesis import strategies as st

from vlib import dsops, env, openmon
from vlib.core import Stage, Violation

ID = "C14"
LEVEL = "exploration"
RULE = ("components: (component, source length 0..400 or infinite, b/T, take "
        "k); non-trivial if the source is longer than k + bound + 1 (so the "
        "bound is not vacuous). dataset: (format, interface, S in {6..14} x "
        "{1,4}, eps, shuffle, file_parallelism, k); non-trivial if S*eps "
        "exceeds k + allowed read-ahead. Distinct by (path, b/T, S class, k "
        "class, format).")
ASSUMPTIONS = [
    "shard opens are counted by inotify IN_OPEN events on the dataset tree "
    "(sees Python, TensorFlow C++ and Rust threads alike)",
    "tf.data's native TFRecord pipeline is autotuned: only a generous linear "
    "bound independent of S is asserted there",
]

SLACK = 1000


class Eager(Exception):
    pass


class CountingSource:

    def __init__(self, n, limit):
        self.n = n  # None = infinite
        self.limit = limit
        self.pulled = 0

    def __iter__(self):
        return self

    def __next__(self):
        if self.n is not None and self.pulled >= self.n:
            raise StopIteration
        if self.pulled > self.limit:
            raise Eager(f"source consumed {self.pulled} > {self.limit}")
        self.pulled += 1
        return self.pulled - 1


def strategy_components(tier):
    return st.fixed_dictionaries({
        "comp": st.sampled_from([
            "shuffle_buffer", "shuffle_buffer_async", "round_robin",
            "round_robin_async", "lazy_pool"
        ]),
        "n": st.one_of(st.none(), st.integers(0, 400), st.integers(0, 30)),
        "b": st.one_of(st.integers(1, 6), st.integers(1, 64)),
        "k": st.one_of(st.integers(0, 5), st.integers(0, 120)),
        "inner": st.integers(1, 4),
    })


def run_components(case, ctx):
    from sedpack.io.itertools import (LazyPool, round_robin,
                                      round_robin_async, shuffle_buffer)
    from sedpack.io.itertools.itertools import shuffle_buffer_async
    comp, n, b, k = case["comp"], case["n"], case["b"], case["k"]
    inner = case["inner"]
    if comp == "lazy_pool":
        t = 1 + (b - 1) % 6
        bound = 2 * t + 2
    elif comp.startswith("round_robin"):
        bound = b  # open inner iterators
    else:
        bound = b
    # what the consumer needs from the source to produce j outputs:
    #   round robin: j elements need ceil(j/inner) inner iterators
    limit = k + bound + SLACK
    src = CountingSource(n, limit)
    observed = []  # (j, pulled)

    def note(j):
        observed.append((j, src.pulled))

    try:
        if comp == "shuffle_buffer":
            it = iter(shuffle_buffer(src, buffer_size=b))
            for j in range(1, k + 1):
                try:
                    next(it)
                except StopIteration:
                    break
                note(j)
            it.close() if hasattr(it, "close") else None
        elif comp == "round_robin":
            outer = (iter([x] * inner) for x in src)
            it = iter(round_robin(outer, buffer_size=b))
            for j in range(1, k + 1):
                try:
                    next(it)
                except StopIteration:
                    break
                note(j)
        elif comp == "lazy_pool":
            with LazyPool(t) as pool:
                it = iter(pool.imap_unordered(lambda x: x, src))
                for j in range(1, k + 1):
                    try:
                        next(it)
                    except StopIteration:
                        break
                    note(j)
                it.close()
        else:

            async def asrc():
                for x in src:
                    yield x

            async def ainner(x):
                for _ in range(inner):
                    yield x

            async def aouter():
                async for x in asrc():
                    yield ainner(x)

            async def go():
                if comp == "shuffle_buffer_async":
                    ag = shuffle_buffer_async(asrc(), b)
                else:
                    ag = round_robin_async(aouter(), buffer_size=b)
                j = 0
                async for _ in ag:
                    j += 1
                    note(j)
                    if j >= k:
                        break
                if k == 0:
                    pass

            if k > 0:
                asyncio.run(go())
    except Eager as exc:
        ctx.fail("bounded", ("eager-consumption", comp),
                 f"{comp} b={b} n={n} k={k}: {exc}")
        return
    for j, pulled in observed:
        if comp.startswith("round_robin"):
            allowed = math.ceil(j / inner) + bound + 1
        else:
            allowed = j + bound + 1
        if pulled > allowed:
            ctx.fail(
                "bounded", ("read-ahead-exceeds-bound", comp),
                f"{comp} b={b} (bound {bound}) n={n} inner={inner}: after "
                f"output #{j} the source had been consumed {pulled} times, "
                f"allowed {allowed}")
            return
    ctx.label("comp=" + comp, "infinite" if n is None else "finite")
    need = (math.ceil(k / inner) if comp.startswith("round_robin") else k)
    if n is None or n > need + bound + 1:
        ctx.nontrivial([
            comp,
            min(bound, 20), "inf" if n is None else
            ("long" if n > 4 * (need + bound) else "longer"),
            min(k, 10)
        ])


# ------------------------------------------- lazy pool with owned interleaving
def strategy_lazy_sched(tier):
    return st.fixed_dictionaries({
        "t": st.integers(1, 4),
        "n": st.one_of(st.none(), st.integers(0, 80)),
        "k": st.integers(1, 30),
        "choices": st.lists(st.integers(0, 4), min_size=0, max_size=400),
        "greedy_workers": st.booleans(),
    })


def run_lazy_sched(case, ctx):
    """LazyPool.imap_unordered with the interleaving owned by vlib.sched:
    workers may run arbitrarily far ahead of a slow consumer."""
    from sedpack.io.itertools import lazy_pool
    from vlib import sched
    from vlib.core import Inconclusive
    t, n, k = case["t"], case["n"], case["k"]
    bound = 2 * t + 2
    src = CountingSource(n, k + bound + SLACK)
    choices = list(case["choices"])
    if case["greedy_workers"]:
        # prefer anybody but the consumer whenever possible: 1 = "first other
        # enabled participant" in the scheduler's ordering
        choices = [1] * 400
    s = sched.Scheduler(choices)
    s.register_current("c")
    observed = []
    eager = None
    with sched.Installed(s):
        try:
            try:
                with lazy_pool.LazyPool(t) as pool:
                    it = iter(pool.imap_unordered(lambda x: x, src))
                    for j in range(1, k + 1):
                        try:
                            next(it)
                        except StopIteration:
                            break
                        observed.append((j, src.pulled))
                    it.close()
            except sched.SchedAbort:
                pass
            except sched.UnsupportedPrimitive as exc:
                raise Inconclusive(str(exc)) from exc
            except Eager as exc:
                eager = exc
            if not s._aborting():  # pylint: disable=protected-access
                s.drain()
        finally:
            s.join_threads(1.0)
    if s.step_limit_hit:
        raise Inconclusive("step limit")
    what = f"LazyPool({t}) n={n} take {k} (scheduler-owned interleaving)"
    if eager is not None:
        ctx.fail("bounded", ("eager-consumption", "lazy_pool-scheduled"),
                 f"{what}: {eager}")
        return
    for j, pulled in observed:
        if pulled > j + bound + 1:
            ctx.fail(
                "bounded", ("read-ahead-exceeds-bound", "lazy_pool-scheduled"),
                f"{what}: after output #{j} the source had been consumed "
                f"{pulled} times, allowed {j + bound + 1}; choices "
                f"{choices[:s.ci][:60]}")
            return
    ctx.label("comp=lazy_pool-scheduled",
              "infinite" if n is None else "finite")
    if n is None or n > k + bound + 1:
        ctx.nontrivial(["lazy-sched", t, "inf" if n is None else "finite",
                        min(k, 10), case["greedy_workers"],
                        s.worker_switches() >= 2])


# ------------------------------------------------------------------ Rust pmap
def strategy_pmap(tier):
    return st.fixed_dictionaries({
        "n": st.one_of(st.just(-1), st.integers(0, 60)),
        "t": st.integers(1, 12),
        "k": st.integers(0, 40),
        "delays": st.lists(st.sampled_from([0, 0, 50, 300, 1500]),
                           min_size=0,
                           max_size=5),
    })


def run_pmap(case, ctx):
    exe = os.environ["VERIF_PMAP_DRIVER"]
    n, t, k = case["n"], case["t"], case["k"]
    line = f"{n} {t} {k} {','.join(str(d) for d in case['delays'])}\n"
    try:
        res = subprocess.run([exe],
                             input=line,
                             capture_output=True,
                             text=True,
                             timeout=120,
                             check=False)
    except subprocess.TimeoutExpired:
        ctx.fail("terminates", ("pmap-take-k-hang",),
                 f"parallel_map n={n} T={t} take {k}: no answer in 120 s")
        return
    if res.returncode != 0:
        ctx.fail("bounded", ("pmap-driver-crashed",),
                 f"case {line!r}: rc={res.returncode} {res.stderr[-500:]}")
        return
    fields = dict(f.split("=", 1) for f in res.stdout.strip().split(" "))
    pulled_at = [int(x) for x in fields["pulled_at"].split(",") if x]
    for j, pulled in enumerate(pulled_at, start=1):
        if pulled > j + t + 1:
            ctx.fail(
                "bounded", ("read-ahead-exceeds-bound", "rust-parallel-map"),
                f"parallel_map T={t} n={n}: after output #{j} the source had "
                f"been consumed {pulled} times, allowed {j + t + 1}")
            return
    if int(fields["pulled_end"]) > k + t + 1 and (n < 0 or n > k + t + 1):
        ctx.fail("bounded", ("read-ahead-exceeds-bound", "rust-parallel-map"),
                 f"parallel_map T={t} n={n} take {k}: consumed "
                 f"{fields['pulled_end']} in total")
    ctx.label("comp=rust-parallel-map", "infinite" if n < 0 else "finite")
    if n < 0 or n > k + t + 1:
        ctx.nontrivial(["pmap", t, "inf" if n < 0 else "finite", min(k, 10)])


# -------------------------------------------------------------------- dataset
def strategy_dataset(tier):
    return st.fixed_dictionaries({
        "fmt": st.sampled_from(["fb", "fb", "fb", "npz", "tfrec"]),
        "comp_idx": st.integers(0, 6),
        "eps": st.integers(1, 4),
        "s": st.one_of(st.integers(6, 14), st.integers(1, 3)),
        "shards_k": st.sampled_from([None, None, None, 1, 2]),
        "mult": st.sampled_from([1, 4]),
        "iface": st.integers(0, 9),
        "shuffle": st.sampled_from([0, 0, 1, 3, 10]),
        "fp": st.integers(1, 5),
        "fp_none": st.integers(0, 4).map(lambda x: x == 0),
        "finite": st.integers(0, 2).map(lambda x: x == 0),
        "k": st.integers(1, 12),
        # a caller-supplied transformation is part of the pipeline
        "proc": st.booleans(),
    })


def allowed_opens(iface, fmt, k, eps, shuffle, fp, prefetch=2) -> int:
    need = math.ceil(k / eps)
    if iface == "sync":
        return math.ceil((k + shuffle) / eps) + 1 + 1
    if iface == "concurrent":
        if shuffle:
            return need + (2 * fp + 2) + fp + 1 + 1
        return need + fp + 1
    if iface == "async":
        return need + (fp if shuffle else 0) + 1 + 1
    if iface == "rust":
        return need + fp + 1 + 1
    if iface == "tfdata":
        if fmt == "tfrec":
            return need + 4 * (fp + 2) + prefetch + math.ceil(
                shuffle / eps) + 8
        # from_generator around the concurrent iterator + tf shuffle buffer
        return (math.ceil((k + shuffle) / eps) + (2 * fp + 2) + fp + 2 + 4)
    raise ValueError(iface)


def run_dataset(case, ctx):
    from props import iter_common
    fmt, eps = case["fmt"], case["eps"]
    comps = dsops.COMPRESSIONS[fmt]
    desc = dsops.simple_desc(fmt, comps[case["comp_idx"] % len(comps)], eps,
                             ["xxh64"], payload=False)
    iface = iter_common.resolve_iface(case["iface"], desc)
    s = case["s"] * case["mult"]
    root = env.scratch_dir("c14")
    try:
        ds = dsops.create_dataset(root / "ds", desc)
        dsops.filler_session(ds, desc, [["train", list(range(s * eps)), None]])
        k, shuffle, fp = case["k"], case["shuffle"], case["fp"]
        opts = {"shuffle": shuffle}  # repeat=True is the default
        if case.get("finite") and not case.get("fp_none"):
            # a finite stream much longer than what is taken: the bound is
            # the same (the statement quantifies over finite streams of any
            # size as well as infinite ones)
            opts["repeat"] = False
            n_sel = min(s, case["shards_k"]) if case.get("shards_k") else s
            k = min(case["k"], max(1, n_sel * eps))
            case = dict(case, k=k)
        if case.get("shards_k"):
            opts["shards"] = case["shards_k"]
        if dsops.iface_accepts(iface, "file_parallelism"):
            opts["file_parallelism"] = fp
        if iface == "tfdata" and case.get("fp_none"):
            # documented as allowed: file_parallelism: int | None
            opts["file_parallelism"] = None
            fp = 1 if fmt != "tfrec" else (os.cpu_count() or 1)
        proc = bool(case.get("proc")) and not (iface == "tfdata" and
                                               case.get("fp_none"))
        if proc:
            opts["process_record"] = (iter_common.tf_process_record
                                      if iface == "tfdata" else
                                      iter_common.np_process_record)
        iter_common.reset_calls()
        mon = openmon.OpenMonitor([root / "ds"])
        dsops._AsyncBridge.idle_s = 0.03  # pylint: disable=protected-access
        try:
            if iface == "tfdata" and case.get("fp_none"):
                it = iter(ds.as_tfdataset("train", batch_size=0,
                                          shuffle=shuffle,
                                          file_parallelism=None,
                                          shards=case.get("shards_k")
                                          ).as_numpy_iterator())
                got = [next(it) for _ in range(k)]
                del it
            else:
                got = dsops.read_prefix(ds, "train", iface, k, **opts)
            opens = len(mon.opened_files("." + fmt))
        finally:
            mon.close()
        if len(got) != k:
            ctx.fail("terminates", ("repeating-stream-ended", iface),
                     f"{iface}: asked {k} from a repeating stream, got "
                     f"{len(got)}")
        allowed = allowed_opens(iface, fmt, k, eps, shuffle, fp)
        if proc and iface == "tfdata":
            # the transformation is mapped with num_parallel_calls=parallelism
            # (a configured value, default: the number of processors), so
            # that many more elements may be in flight
            allowed += math.ceil((os.cpu_count() or 1) / eps) + 2
        if opens > allowed:
            ctx.fail(
                "bounded", ("shard-opens-exceed-bound", iface),
                f"{iface} fmt={fmt} S={s} eps={eps} shuffle={shuffle} "
                f"file_parallelism={fp}: taking {k} examples opened {opens} "
                f"shard files, allowed {allowed} (independent of S)")
        if proc and iface != "tfdata":
            # every transformed example comes from an opened shard
            calls = iter_common.calls()
            if calls > allowed * eps + shuffle:
                ctx.fail(
                    "bounded", ("transformation-calls-exceed-bound", iface),
                    f"{iface} fmt={fmt} S={s} eps={eps} shuffle={shuffle} "
                    f"file_parallelism={fp}: taking {k} examples applied "
                    f"process_record to {calls} examples, allowed "
                    f"{allowed * eps + shuffle} (independent of S)")
            ctx.label("process_record")
        ctx.label("iface=" + iface, f"mult={case['mult']}", "fmt=" + fmt)
        ctx.count("opens", opens)
        if s > allowed + 2:
            ctx.nontrivial([
                iface, fmt,
                min(fp, 5), shuffle > 0, case["mult"],
                min(k, 6)
            ])
    finally:
        dsops.rmtree(root)


STAGES = [
    Stage(name="components",
          run=run_components,
          strategy=strategy_components,
          examples={
              "quick": 12000,
              "thorough": 120000
          }),
    Stage(name="lazy_sched",
          run=run_lazy_sched,
          strategy=strategy_lazy_sched,
          examples={
              "quick": 3000,
              "thorough": 60000
          }),
    Stage(name="pmap",
          run=run_pmap,
          strategy=strategy_pmap,
          examples={
              "quick": 1500,
              "thorough": 20000
          }),
    Stage(name="dataset",
          run=run_dataset,
          strategy=strategy_dataset,
          examples={
              "quick": 400,
              "thorough": 4000
          },
          fork=True,
          rust=True,
          timeout=75,
          timeout_violation=lambda case: (
              "terminates", ("take-k-does-not-return",),
              f"taking {case['k']} examples from a repeating stream did not "
              f"return: {case}")),
]
NEEDS_RUST_HARNESS = True
