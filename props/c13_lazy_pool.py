"""C13  The lazy thread pool is correct under every thread interleaving.

Stage ``schedules``: (T, n, scenario, choices[<=400]) with the deterministic
scheduler shim of vlib.sched owning the interleaving of the T workers and the
consumer at queue-operation granularity.  Scenarios: run to completion;
abandon after k results (generator closed inside the ``with``); mapped
function raises on input j (an Exception, or a BaseException that is not an
Exception); two consecutive imap_unordered on one pool; abandon, leave the
context, re-enter and run to completion; abandon WITHOUT closing the
generator, re-enter, and close the stale generator in the middle of the second
iteration (what garbage collection does); two pools alive at the same time
and consumed in lock step by one thread; an iteration whose mapped function
fails on one input is abandoned and the pool reused at once.  Input elements
are integers, NumPy arrays or objects equal to everything (the pool must not
compare its inputs with anything).
Oracle: completion => Counter(results) == Counter(f(x)) and termination; no
reachable state is a deadlock (all live participants parked, none enabled) in
any scenario, including the failing function; after the context is left every
worker terminates (drain); a re-used pool is again correct.
Stage ``dfs``: exhaustive enumeration of all schedules with at most P
preemptions for the configurations T<=2, n<=3 x scenarios (P=1 quick, 2
thorough; a configuration whose schedule count exceeds the budget is
labelled dfs-budget-hit and not counted as exhaustive).
Stage ``real``: the same scenarios on real queues with generated sleeps in the
mapped function and a watchdog (cross-check of the shim: a hang is only
reported after a solitary re-run with a doubled timeout).
"""
from __future__ import annotations

import hashlib
import threading
import time
from collections import Counter

from hypothesis import strategies as st

from vlib import forkrun, sched
from vlib.core import Inconclusive, Stage

ID = "C13"
LEVEL = "exploration"
RULE = ("schedules: T in 1..4 (4% of the cases 5..72), n in 0..2T+5 biased to T-1,T,T+1,2T+1,2T+2,"
        "2T+3, scenario in {complete, abandon@k, fail@j, twice, "
        "abandon-then-reuse, stale-close, two pools in lock step}, up to 400 scheduler choices (then a fair "
        "policy). Non-trivial: >= 2 context switches between different "
        "workers while results are pending, or any abandon/fail scenario. "
        "Distinct by (T, n, scenario, parameters, hash of the executed "
        "schedule). dfs: every schedule with <= P preemptions for T<=2, "
        "n<=3 (exhaustive within that bound).")
ASSUMPTIONS = [
    "the interleaving is owned at queue-operation granularity (the pool's "
    "only shared state are its two queues); code between two queue "
    "operations of one thread runs atomically",
    "a timed get/put that cannot proceed may time out at any moment "
    "(arbitrarily slow peers)",
]

SCENARIOS = ["complete", "abandon", "fail", "fail_base", "twice",
             "abandon_reuse", "stale_close", "two_pools", "abandon_fail_reuse"]


class Boom(Exception):
    pass


class AlwaysEqual:
    """Equal to everything (like unittest.mock.ANY)."""

    def __init__(self, i):
        self.i = i

    def __eq__(self, other):
        return True

    def __ne__(self, other):
        return False

    __hash__ = None


class BaseBoom(BaseException):
    """A failure that is not derived from Exception (like SystemExit)."""


def f_tag(x):
    return ("r", x)


def make_failing(j, exc=Boom):

    def f(x):
        if x == j:
            raise exc(f"input {x}")
        return ("r", x)

    return f


def st_n(t):
    special = [t - 1, t, t + 1, 2 * t + 1, 2 * t + 2, 2 * t + 3]
    return st.one_of(st.sampled_from([x for x in special if x >= 0]),
                     st.integers(0, 2 * t + 5))


@st.composite
def strategy_schedules(draw, tier):
    # mostly small pools (all interleavings matter there), sometimes a wide
    # one: "for all thread counts T"
    if draw(st.integers(0, 24)) == 0:
        t = draw(st.integers(5, 72))
    else:
        t = draw(st.integers(1, 4))
    n = draw(st_n(t))
    scenario = draw(st.sampled_from(SCENARIOS))
    k = draw(st.integers(0, max(n, 1)))
    n2 = draw(st_n(t))
    choices = draw(st.lists(st.integers(0, 4), min_size=0, max_size=400))
    return {
        "t": t,
        "n": n,
        "scenario": scenario,
        "k": k,
        "n2": n2,
        "t2": draw(st.integers(1, 2)),
        "inputs": draw(st.sampled_from(["int", "int", "int", "array",
                                        "always-equal"])),
        "choices": choices
    }


def drive(case, pool_cls, ctx_fail, sleeps=None):
    """Run the scenario against LazyPool (real or shimmed queues).  Returns
    a dict of observations; oracle failures go through ctx_fail(...)."""
    t, n, scenario, k, n2 = (case["t"], case["n"], case["scenario"],
                             case["k"], case["n2"])

    kind = case.get("inputs", "int")

    def src(rng):
        """The input elements: integers, or objects with an __eq__ of their
        own (the pool must not compare them with anything)."""
        if kind == "array":
            import numpy as np
            return [np.array([i, i]) for i in rng]
        if kind == "always-equal":
            return [AlwaysEqual(i) for i in rng]
        return rng

    def dec(x):
        if kind == "array":
            return int(x[0])
        if kind == "always-equal":
            return x.i
        return x

    def wrap(f):

        def g(x):
            x = dec(x)
            if sleeps:
                d = sleeps[x % len(sleeps)]
                if d:
                    time.sleep(d / 1e6)
            return f(x)

        return g

    obs = {"raised": None}
    pool = pool_cls(t)
    if scenario == "complete":
        with pool as p:
            out = list(p.imap_unordered(wrap(f_tag), src(range(n))))
        check_multiset(ctx_fail, out, n, "complete", case)
    elif scenario == "twice":
        with pool as p:
            out = list(p.imap_unordered(wrap(f_tag), src(range(n))))
            out2 = list(p.imap_unordered(wrap(f_tag), src(range(100, 100 + n2))))
        check_multiset(ctx_fail, out, n, "twice/first", case)
        check_multiset(ctx_fail, out2, n2, "twice/second", case, base=100)
    elif scenario == "two_pools":
        # two pools alive at the same time, consumed in lock step by one
        # thread (e.g. a training and a validation stream); the shorter one
        # ends while the other is in the middle of its iteration
        pool2 = pool_cls(case.get("t2", 1))
        with pool as p, pool2 as q:
            a = iter(p.imap_unordered(wrap(f_tag), src(range(n))))
            b = iter(q.imap_unordered(wrap(f_tag), src(range(100, 100 + n2))))
            out, out2 = [], []
            live = [[a, out], [b, out2]]
            while live:
                for pair in list(live):
                    try:
                        pair[1].append(next(pair[0]))
                    except StopIteration:
                        live.remove(pair)
        check_multiset(ctx_fail, out, n, "two-pools/first", case)
        check_multiset(ctx_fail, out2, n2, "two-pools/second", case, base=100)
    elif scenario == "abandon_fail_reuse":
        # the first iteration is abandoned (or ends with the failure) while an
        # input on which the mapped function fails may still be waiting for a
        # worker of that iteration; the pool is reused at once and the late
        # failure of the OLD iteration must not disturb the new one
        j = (k + 1) % max(n, 1)
        try:
            with pool as p:
                it = iter(p.imap_unordered(wrap(make_failing(j)),
                                           src(range(n))))
                for _ in range(k):
                    try:
                        next(it)
                    except StopIteration:
                        break
                it.close()
        except Boom:
            pass
        with pool as p:
            out2 = list(p.imap_unordered(wrap(f_tag),
                                         src(range(100, 100 + n2))))
        check_multiset(ctx_fail, out2, n2, "reuse-after-abandoned-failure",
                       case, base=100)
    elif scenario in ("abandon", "abandon_reuse"):
        with pool as p:
            it = iter(p.imap_unordered(wrap(f_tag), src(range(n))))
            got = []
            for _ in range(k):
                try:
                    got.append(next(it))
                except StopIteration:
                    break
            it.close()
        if len(set(got)) != len(got) or any(
                not (0 <= x[1] < n) for x in got):
            ctx_fail("multiset", ("abandon-prefix-invalid",),
                     f"prefix {got} of n={n}")
        if scenario == "abandon_reuse":
            with pool as p:
                out2 = list(p.imap_unordered(wrap(f_tag),
                                             src(range(100, 100 + n2))))
            check_multiset(ctx_fail, out2, n2, "reuse-after-abandon", case,
                           base=100)
    elif scenario == "stale_close":
        # the first iteration is abandoned WITHOUT closing its generator (it
        # is still referenced); it is closed (as garbage collection would do)
        # in the middle of a second iteration on the re-entered pool
        with pool as p:
            it = iter(p.imap_unordered(wrap(f_tag), src(range(n))))
            for _ in range(min(k, n)):
                try:
                    next(it)
                except StopIteration:
                    break
        with pool as p:
            out2 = []
            it2 = iter(p.imap_unordered(wrap(f_tag), src(range(100, 100 + n2))))
            closed = False
            for r in it2:
                out2.append(r)
                if not closed and len(out2) >= max(1, n2 // 3):
                    it.close()
                    closed = True
            if not closed:
                it.close()
        check_multiset(ctx_fail, out2, n2, "reuse-after-stale-close", case,
                       base=100)
    elif scenario in ("fail", "fail_base"):
        j = k % max(n, 1)
        got = []
        exc_type = Boom if scenario == "fail" else BaseBoom
        try:
            with pool as p:
                for r in p.imap_unordered(wrap(make_failing(j, exc_type)),
                                          src(range(n))):
                    got.append(r)
        except (Boom, BaseBoom) as exc:
            obs["raised"] = repr(exc)
        except sched.SchedAbort:
            raise
        if n > 0 and obs["raised"] is None:
            # ending normally without the failed input's result is a silent
            # loss; C13 only demands "no deadlock", so this is a label
            obs["fail_swallowed"] = True
        if len(set(got)) != len(got):
            ctx_fail("multiset", ("duplicate-result",), f"{got}")
    return obs


def check_multiset(ctx_fail, out, n, what, case, base=0):
    want = Counter(("r", x) for x in range(base, base + n))
    if Counter(out) != want:
        ctx_fail(
            "multiset", ("result-multiset-mismatch", what.split("/")[0]),
            f"{what}: T={case['t']} n={n}: got {sorted(out)} want "
            f"{sorted(want)}")


def run_under_shim(case, ctx, choices):
    from sedpack.io.itertools import lazy_pool
    s = sched.Scheduler(choices)
    s.register_current("c")
    result = {"obs": None}
    with sched.Installed(s):
        try:
            unexpected = None
            try:
                result["obs"] = drive(case, lazy_pool.LazyPool, ctx.fail)
            except sched.SchedAbort:
                pass
            except (sched.UnsupportedPrimitive, Inconclusive):
                raise
            except Exception as exc:  # pylint: disable=broad-except
                from vlib.core import Violation
                if isinstance(exc, Violation):
                    raise
                unexpected = exc
            clean = s.drain() if not s._aborting() else False  # pylint: disable=protected-access
        finally:
            alive = s.join_threads(1.0)
    if s.step_limit_hit:
        raise Inconclusive("step limit")
    what = (f"T={case['t']} n={case['n']} scenario={case['scenario']} "
            f"k={case['k']} n2={case['n2']}")
    if unexpected is not None:
        ctx.fail(
            "pool-usable", ("pool-api-raised", case["scenario"],
                            type(unexpected).__name__),
            f"{what}: the pool raised {unexpected!r} to its user although "
            f"the mapped function did not fail; last steps {s.trace[-10:]}; "
            f"choices {choices[:s.ci]}")
    if s.deadlock is not None:
        waiting = s.deadlock["waiting"]
        consumer_stuck = any(name == "c" and not op.startswith("drain")
                             for name, op in waiting)
        if consumer_stuck:
            ctx.fail(
                "no-deadlock", ("deadlock", case["scenario"]),
                f"{what}: all threads parked, none enabled: {waiting}; last "
                f"steps {s.deadlock['trace_tail']}; choices "
                f"{choices[:s.ci]}")
        else:
            ctx.fail(
                "workers-terminate", ("worker-never-terminates",
                                      case["scenario"]),
                f"{what}: after the pool's context was left these threads "
                f"wait forever: {waiting}; last steps "
                f"{s.deadlock['trace_tail']}; choices {choices[:s.ci]}")
    return s


def run_schedules(case, ctx):
    try:
        s = run_under_shim(case, ctx, case["choices"])
    except sched.UnsupportedPrimitive as exc:
        ctx.label("unsupported-primitive")
        raise Inconclusive(str(exc)) from exc
    ctx.label("scenario=" + case["scenario"],
              f"T={case['t']}" if case["t"] <= 4 else "T=5..72")
    ctx.count("scheduling_points", len(s.trace))
    if s.timeouts_fired:
        ctx.label("timeouts-fired")
    if s.worker_switches() >= 2 or case["scenario"] in (
            "abandon", "fail", "fail_base", "abandon_reuse", "stale_close",
            "two_pools", "abandon_fail_reuse") or case.get(
                "inputs", "int") != "int":
        h = hashlib.blake2b("|".join(s.trace).encode(),
                            digest_size=6).hexdigest()
        ctx.nontrivial([
            case["t"], case["n"], case["scenario"], case["k"], case["n2"], h
        ])


# ------------------------------------------------------------------------ dfs
def enumerate_dfs(tier):
    cases = []
    for t in (1, 2):
        for n in range(0, 4):
            for scenario in SCENARIOS:
                ks = [0]
                if scenario in ("abandon", "abandon_reuse", "stale_close",
                                "abandon_fail_reuse"):
                    ks = list(range(0, n + 1))
                elif scenario in ("fail", "fail_base"):
                    ks = list(range(0, max(n, 1)))
                for k in ks:
                    cases.append({
                        "t": t,
                        "n": n,
                        "scenario": scenario,
                        "k": k,
                        "n2": 2 if scenario in ("twice", "abandon_reuse",
                                                "stale_close", "two_pools",
                                                "abandon_fail_reuse") else 0,
                        "t2": 1,
                        "bound": 1 if tier == "quick" else 2,
                        "budget": 3000 if tier == "quick" else 50000,
                    })
    return cases


def run_dfs(case, ctx):
    """All schedules with at most `bound` preemptions (a preemption = not
    continuing the current participant although it is enabled)."""
    bound, budget = case["bound"], case["budget"]
    stack = [[]]
    runs = 0
    seen = set()
    complete = True
    while stack:
        if runs >= budget:
            complete = False
            break
        prefix = stack.pop()
        try:
            s = run_under_shim(case, ctx, prefix + [0] * 0)
        except sched.UnsupportedPrimitive as exc:
            # the pool uses a synchronisation primitive the shim does not own:
            # nothing can be concluded from schedules (stage `real` still runs)
            ctx.label("unsupported-primitive")
            raise Inconclusive(str(exc)) from exc
        runs += 1
        # the executed decisions: prefix, then fair-policy decisions
        taken, branching, pre = s.taken, s.branching, s.preemptible
        h = hashlib.blake2b("|".join(s.trace).encode(),
                            digest_size=8).digest()
        if h not in seen:
            seen.add(h)
        # children: alternatives at every decision point after the prefix
        for i in range(len(prefix), len(taken)):
            used = sum(1 for j in range(i) if pre[j] and taken[j] != 0)
            for alt in range(branching[i]):
                if alt == taken[i]:
                    continue
                cost = 1 if (pre[i] and alt != 0) else 0
                if used + cost > bound:
                    continue
                stack.append(list(taken[:i]) + [alt])
    ctx.count("dfs_schedules", runs)
    ctx.evaluated(runs)
    ctx.count("dfs_distinct_traces", len(seen))
    ctx.label("scenario=" + case["scenario"], f"T={case['t']}",
              "dfs-complete" if complete else "dfs-budget-hit")
    for h in list(seen)[:2000]:
        ctx.nontrivial([case["t"], case["n"], case["scenario"], case["k"],
                        h.hex()])


# ----------------------------------------------------------------------- real
@st.composite
def strategy_real(draw, tier):
    base = draw(strategy_schedules(tier))
    base["choices"] = []
    base["sleeps"] = draw(
        st.lists(st.sampled_from([0, 0, 20, 200, 1500]), min_size=1,
                 max_size=6))
    return base


def _real_child(case):
    from sedpack.io.itertools import lazy_pool
    fails = []

    def ctx_fail(clause, signature, details=""):
        fails.append((clause, tuple(signature), details))
        return False

    before = threading.active_count()
    try:
        drive(case, lazy_pool.LazyPool, ctx_fail, sleeps=case["sleeps"])
    except Exception as exc:  # pylint: disable=broad-except
        fails.append(("pool-usable", ("pool-api-raised", case["scenario"],
                                      type(exc).__name__), repr(exc)))
    end = time.monotonic() + 20
    while threading.active_count() > before and time.monotonic() < end:
        time.sleep(0.002)
    return {"fails": fails, "leaked": threading.active_count() - before}


def run_real(case, ctx):
    what = (f"T={case['t']} n={case['n']} scenario={case['scenario']} "
            f"k={case['k']} sleeps={case['sleeps']}")
    try:
        res = forkrun.run_in_child(_real_child, case, timeout=60)
    except forkrun.ChildTimeout:
        try:
            res = forkrun.run_in_child(_real_child, case, timeout=120)
        except forkrun.ChildTimeout:
            ctx.fail("no-deadlock", ("hang-real-threads", case["scenario"]),
                     f"{what}: no result within 60 s and again within 120 s")
            return
    for clause, sig, details in res["fails"]:
        ctx.fail(clause, sig, "[real threads] " + details)
    if res["leaked"] > 0:
        ctx.fail("workers-terminate", ("worker-never-terminates-real",
                                       case["scenario"]),
                 f"{what}: {res['leaked']} worker threads still alive 20 s "
                 f"after the pool's context was left")
    ctx.label("real:" + case["scenario"])
    if case["scenario"] != "complete" or any(case["sleeps"]):
        ctx.nontrivial(["real", case["t"], case["n"], case["scenario"],
                        case["k"], case["sleeps"]])


STAGES = [
    Stage(name="schedules",
          run=run_schedules,
          strategy=lambda tier: strategy_schedules(tier),
          examples={
              "quick": 24000,
              "thorough": 300000
          }),
    Stage(name="dfs",
          run=run_dfs,
          enumerate=enumerate_dfs,
          exhaustive=True),
    Stage(name="real",
          run=run_real,
          strategy=lambda tier: strategy_real(tier),
          examples={
              "quick": 800,
              "thorough": 8000
          }),
]
