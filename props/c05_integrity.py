"""C05  Integrity check accepts every committed dataset and detects every
modification.

positive: after every completed session of a generated history, check()
returns normally on the kept and on a fresh handle, also when the current root
checksums are supplied.
negative (metamorphic, fault injection): on the committed dataset, one file
reachable from the description is modified -- bit flip, truncation,
extension, deletion, swap with a sibling of the same kind, rollback to the
version saved after an earlier session (optionally together with all its
ancestor lists), replacement by the same-named file of another directory, and
eight well-formed edits of a metadata file (the algorithm list emptied /
shortened / doubled, a recorded checksum list emptied, a count changed, an
entry dropped or moved, the same document re-serialised compactly).  If
the reference digests (vlib.refhash) of the faulted file differ from the
digests recorded for it (i.e. the fault is a real modification), opening the
dataset and check(hash_checksums_values=<root checksums taken before the
fault>) must raise.

Stage ``faults`` samples faults (many per generated dataset); stage ``sweep``
enumerates, for each generated dataset, every byte offset (one generated bit
each) and every truncation length of every metadata file, substitution by 8
"interesting" byte values and insertion of CR / space / LF at every line and
indentation start (thorough: at every offset), the first/last 256
bytes and a strided interior of every shard, all deletions, sibling swaps and
rollbacks.
"""
from __future__ import annotations

import json
import os
from pathlib import Path

from hypothesis import strategies as st

from props import hist_common
from vlib import dsops, env, history, refhash
from vlib.core import Stage

ID = "C05"
LEVEL = "fault_enumeration"
RULE = ("Datasets from the C04 history generator (1..13 algorithms); faults "
        "= (file role in {shard, shards_list, dataset_info}, file pick, kind "
        "in {flip,truncate,extend,delete,swap,rollback,rollback_chain,"
        "foreign}, position). A fault counts only if the reference digest of "
        "the faulted file differs from the recorded one. Non-trivial: fault "
        "on a non-first shard, an interior byte, a nested list, a rollback or "
        "a swap. Distinct by (role, tree depth of the file, kind, position "
        "class, number of algorithms, history fingerprint hash).")
ASSUMPTIONS = [
    "faults on dataset_info.json are asserted only with the expected root "
    "checksums supplied, as the statement says",
    "reference digests from vlib.refhash decide whether a fault is a real "
    "modification (e.g. swapping byte-identical files is not)",
]

KINDS = [
    "flip", "flip", "truncate", "extend", "delete", "swap", "rollback",
    "rollback_chain", "foreign", "subst", "subst", "insert", "edit", "edit"
]
N_EDITS = 8
# "interesting" byte values for substitutions / insertions: white space and
# line-end variants (text files parse the same after such a change), NUL,
# digits, 0xFF.
INTERESTING = [0x0D, 0x0A, 0x20, 0x09, 0x00, 0x30, 0x31, 0xFF]
INSERTS = [b"\r", b" ", b"\n"]


def st_fault():
    return st.fixed_dictionaries({
        "role": st.sampled_from(["shard", "shard", "list", "list", "info"]),
        "pick": st.integers(0, 40),
        "kind": st.sampled_from(KINDS),
        "region": st.sampled_from(
            ["first", "last", "interior", "interior", "newline", "newline"]),
        "frac": st.integers(0, 9999),
        "bit": st.integers(0, 7),
        "extra": st.binary(min_size=1, max_size=6),
    })


@st.composite
def strategy_faults(draw, tier):
    case = draw(
        hist_common.st_history_case(
            tier,
            tfrec_weight=0,
            hashes=st.lists(st.sampled_from(dsops.HASHES),
                            min_size=1,
                            max_size=13).filter(lambda h: True),
            max_ops=4))
    case["faults"] = draw(st.lists(st_fault(), min_size=8, max_size=40))
    return case


@st.composite
def strategy_sweep(draw, tier):
    case = draw(
        hist_common.st_history_case(tier,
                                    tfrec_weight=0,
                                    hashes=st.lists(
                                        st.sampled_from(dsops.HASHES),
                                        min_size=1,
                                        max_size=3),
                                    max_ops=3,
                                    payload=False,
                                    busy=True,
                                    min_ops=2))
    case["bitseed"] = draw(st.integers(0, 7))
    case["dense"] = tier == "thorough"
    return case


class Committed:
    """A committed dataset + everything needed to inject and undo faults."""

    def __init__(self, h: history.History, versions: list):
        self.h = h
        self.root = h.root
        self.algos = h.desc["hashes"]
        self.versions = versions  # per session: {rel: bytes} of metadata
        tree = dsops.walk_dataset(self.root)
        self.recorded: dict[str, tuple] = {}
        self.parent: dict[str, str] = {}
        self.depth: dict[str, int] = {}
        self.shards: list[str] = []
        self.lists: list[str] = []
        for split, entry in tree["splits"].items():
            s = entry["summary"]["shard_list_info_file"]
            self.recorded[s["file_path"]] = tuple(s.get("hash_checksums", []))
            self.parent[s["file_path"]] = "dataset_info.json"
            for node in dsops.all_nodes(entry["node"]):
                self.lists.append(node["rel"])
                self.depth[node["rel"]] = node["rel"].count("/")
                for sh in node["shards"]:
                    for f, cs in zip(sh["files"], sh["checksums"]):
                        self.recorded[f] = tuple(cs)
                        self.parent[f] = node["rel"]
                        self.depth[f] = f.count("/")
                        self.shards.append(f)
                for ch in node["children"]:
                    c = ch["summary"]["shard_list_info_file"]
                    self.recorded[c["file_path"]] = tuple(
                        c.get("hash_checksums", []))
                    self.parent[c["file_path"]] = node["rel"]
        self.root_expected = tuple(
            refhash.ref_digests(self.algos,
                                (self.root / "dataset_info.json").read_bytes()))
        self.recorded["dataset_info.json"] = self.root_expected
        self.depth["dataset_info.json"] = 0

    def ancestors(self, rel: str) -> list:
        out = []
        while rel in self.parent:
            rel = self.parent[rel]
            out.append(rel)
        return out

    def check_raises(self, also_writer: bool = True) -> tuple[bool, str]:
        """open + check on a fresh handle AND check on the handle that wrote
        the dataset: both must refuse (returns False if either accepts)."""
        from sedpack.io import Dataset
        try:
            ds = Dataset(self.root)
            ds.check(show_progressbar=False,
                     hash_checksums_values=self.root_expected)
        except Exception as exc:  # pylint: disable=broad-except
            how = type(exc).__name__
        else:
            return False, "fresh handle"
        if not also_writer:
            return True, how
        try:
            self.h.ds.check(show_progressbar=False,
                            hash_checksums_values=self.root_expected)
        except Exception:  # pylint: disable=broad-except
            return True, how
        return False, "writing handle"


def apply_fault(c: Committed, rel: str, kind: str, pos: int, bit: int,
                extra: bytes, other: str | None, version: dict | None):
    """Returns (undo: {rel: bytes|None}, description) or None if not
    applicable."""
    path = c.root / rel
    data = path.read_bytes()
    undo = {rel: data}
    if kind == "flip":
        if not data:
            return None
        pos %= len(data)
        new = bytearray(data)
        new[pos] ^= 1 << bit
        path.write_bytes(bytes(new))
    elif kind == "truncate":
        if not data:
            return None
        pos %= len(data)  # new length 0..len-1
        path.write_bytes(data[:pos])
    elif kind == "subst":
        if not data:
            return None
        pos %= len(data)
        value = INTERESTING[bit % len(INTERESTING)]
        if data[pos] == value:
            return None
        new = bytearray(data)
        new[pos] = value
        path.write_bytes(bytes(new))
    elif kind == "insert":
        pos %= len(data) + 1
        path.write_bytes(data[:pos] + INSERTS[bit % len(INSERTS)] +
                         data[pos:])
    elif kind == "edit":
        new = json_edit(rel, data, bit)
        if new is None or new == data:
            return None
        path.write_bytes(new)
    elif kind == "extend":
        path.write_bytes(data + extra)
    elif kind == "delete":
        path.unlink()
    elif kind in ("swap", "foreign"):
        if other is None or other == rel:
            return None
        odata = (c.root / other).read_bytes()
        path.write_bytes(odata)
        if kind == "swap":
            undo[other] = odata
            (c.root / other).write_bytes(data)
    elif kind in ("rollback", "rollback_chain"):
        if version is None or rel not in version or version[rel] == data:
            return None
        path.write_bytes(version[rel])
        if kind == "rollback_chain":
            for anc in c.ancestors(rel):
                if anc == "dataset_info.json" or anc not in version:
                    continue
                undo[anc] = (c.root / anc).read_bytes()
                (c.root / anc).write_bytes(version[anc])
    else:
        raise ValueError(kind)
    return undo


def json_edit(rel: str, data: bytes, which: int):
    """A well-formed edit of a metadata file (what an editor or a script does,
    as opposed to byte damage): the file still parses.  None if not
    applicable."""
    if not rel.endswith(".json"):
        return None
    try:
        doc = json.loads(data)
    except ValueError:
        return None
    which %= N_EDITS
    if rel == "dataset_info.json":
        st_ = doc["dataset_structure"]
        if which == 0:
            st_["hash_checksum_algorithms"] = []
        elif which == 1:
            st_["hash_checksum_algorithms"] = \
                st_["hash_checksum_algorithms"][:1]
        elif which == 2:
            st_["examples_per_shard"] += 1
        elif which == 3:
            doc["metadata"]["description"] += "x"
        elif which == 4:
            return json.dumps(doc, separators=(",", ":")).encode()
        elif which == 5:
            for sp in doc["splits"].values():
                sp["shard_list_info_file"]["hash_checksums"] = []
        elif which == 6:
            st_["hash_checksum_algorithms"] = \
                st_["hash_checksum_algorithms"] * 2
        else:
            for sp in doc["splits"].values():
                sp["number_of_examples"] += 1
    else:
        shards = doc.get("shard_files", [])
        kids = doc.get("children_shard_lists", [])
        if which == 0 and shards:
            shards[0]["number_of_examples"] += 1
        elif which == 1 and shards:
            shards[-1]["custom_metadata"] = {"edited": True}
        elif which == 2 and shards:
            shards.pop()
        elif which == 3 and shards:
            shards[0]["file_infos"][0]["hash_checksums"] = []
        elif which == 4:
            return json.dumps(doc, separators=(",", ":")).encode()
        elif which == 5 and kids:
            kids[0]["shard_list_info_file"]["hash_checksums"] = []
        elif which == 6 and kids:
            kids.pop()
        elif which == 7 and len(shards) >= 2:
            shards[0], shards[-1] = shards[-1], shards[0]
        else:
            return None
    return json.dumps(doc, indent=2, ensure_ascii=False).encode()


def restore(c: Committed, undo: dict):
    for rel, data in undo.items():
        (c.root / rel).write_bytes(data)


def is_modification(c: Committed, rel: str) -> bool:
    p = c.root / rel
    if not p.is_file():
        return True
    return tuple(refhash.ref_digests(c.algos,
                                     p.read_bytes())) != c.recorded[rel]


def pos_class(pos: int, size: int) -> str:
    if size == 0:
        return "empty"
    if pos == 0:
        return "first"
    if pos >= size - 1:
        return "last"
    return "interior"


def one_fault(c: Committed, ctx, rel: str, role: str, kind: str, pos: int,
              bit: int, extra: bytes, other, version, hist_fp) -> None:
    size = (c.root / rel).stat().st_size
    undo = apply_fault(c, rel, kind, pos, bit, extra, other, version)
    if undo is None:
        ctx.count("fault_not_applicable")
        return
    try:
        changed = [r for r in undo if is_modification(c, r)]
        if not changed:
            ctx.count("not_a_modification")
            return
        # the writing handle is asked for every description fault and for a
        # deterministic eighth of the others (it shares the list/shard code
        # path with the fresh handle)
        raised, how = c.check_raises(also_writer=(role == "info" or
                                                  pos % 8 == 0))
        ctx.count("faults")
        ctx.evaluated()
        ctx.count(f"faults:{role}:{kind}")
        if not raised:
            ctx.fail(
                "detect", ("undetected", role, kind) +
                (("writing-handle",) if how == "writing handle" else ()),
                f"[{how}] {kind} of {rel} (pos {pos % max(size, 1)} of {size}, bit "
                f"{bit}, other={other}) changed the bytes of {changed} but "
                f"open+check returned normally; algorithms {c.algos}")
    finally:
        restore(c, undo)
    pc = pos_class(pos % max(size, 1), size) if kind in (
        "flip", "truncate", "subst", "insert") else "-"
    nontrivial = (kind in ("swap", "rollback", "rollback_chain", "foreign") or
                  pc == "interior" or c.depth.get(rel, 0) >= 2 or
                  (role == "shard" and c.shards.index(rel) > 0))
    if nontrivial:
        ctx.nontrivial(
            [role, c.depth.get(rel, 0), kind, pc,
             len(c.algos), hist_fp])


def build(case, ctx, prefix):
    """Run the history with the positive clause; returns Committed or None.
    The caller owns cleanup through the returned root."""
    root = env.scratch_dir(prefix)
    h = history.History(root / "ds", case["desc"])
    versions = []
    for op in case["ops"]:
        if op["k"] != "filler" and op["k"] != "multi":
            continue
        try:
            info = h.apply(op)
        except history.SessionFailed as exc:
            ctx.label("aborted_history:" + type(exc.exc).__name__)
            ctx.count("aborted_histories")
            dsops.rmtree(root)
            return None, root
        # positive clause after every session --------------------------
        from sedpack.io import Dataset
        for hname, ds in (("kept", h.ds), ("fresh", Dataset(h.root))):
            for with_root in (False, True):
                try:
                    kw = {}
                    if with_root:
                        kw["hash_checksums_values"] = \
                            ds.current_metadata_checksums()
                    ds.check(show_progressbar=False, **kw)
                    ctx.count("positive_checks")
                except Exception as exc:  # pylint: disable=broad-except
                    ctx.fail(
                        "accept", ("check-rejects-committed", hname,
                                   type(exc).__name__),
                        f"after session {info['session']} "
                        f"({info.get('relation')}, dir {info.get('dir')}) "
                        f"check() on the {hname} handle raised {exc!r}")
        snap = {}
        for p in h.root.rglob("*.json"):
            snap[str(p.relative_to(h.root))] = p.read_bytes()
        versions.append(snap)
    return Committed(h, versions), root


def run_faults(case, ctx):
    c, root = build(case, ctx, "c05")
    try:
        if c is None:
            return
        h = c.h
        hist_fp = history_hash(h)
        hist_common.history_labels(h, ctx)
        ctx.label(f"algos={min(len(c.algos), 5)}+")
        for f in case["faults"]:
            role = f["role"]
            pool = {"shard": c.shards, "list": c.lists,
                    "info": ["dataset_info.json"]}[role]
            if not pool:
                continue
            rel = pool[f["pick"] % len(pool)]
            kind = f["kind"]
            size = (c.root / rel).stat().st_size
            if f["region"] == "first":
                pos = 0
            elif f["region"] == "last":
                pos = max(size - 1, 0)
            elif f["region"] == "newline":
                data = (c.root / rel).read_bytes()
                nl = [i for i, ch in enumerate(data) if ch in (0x0A, 0x20)]
                pos = nl[f["frac"] % len(nl)] if nl else 0
            else:
                pos = (f["frac"] * max(size, 1)) // 10000
            other = None
            if kind == "swap":
                sib = [
                    x for x in pool
                    if x != rel and os.path.dirname(x) == os.path.dirname(rel)
                ] if role == "shard" else [x for x in pool if x != rel]
                other = sib[f["frac"] % len(sib)] if sib else None
            elif kind == "foreign":
                sib = [x for x in pool if x != rel]
                other = sib[f["frac"] % len(sib)] if sib else None
            version = None
            if kind in ("rollback", "rollback_chain") and len(c.versions) > 1:
                version = c.versions[f["frac"] % (len(c.versions) - 1)]
            one_fault(c, ctx, rel, role, kind, pos, f["bit"], f["extra"],
                      other, version, hist_fp)
        # harness sanity: everything restored
        raised, how = c.check_raises()
        if raised:
            raise RuntimeError("harness: dataset not restored after faults: " +
                               how)
    finally:
        dsops.rmtree(root)


def history_hash(h) -> str:
    import hashlib
    import json
    return hashlib.blake2b(json.dumps(h.fingerprint()).encode(),
                           digest_size=4).hexdigest()


def run_sweep(case, ctx):
    c, root = build(case, ctx, "c05s")
    try:
        if c is None:
            return
        hist_fp = history_hash(c.h)
        hist_common.history_labels(c.h, ctx)
        meta_files = ["dataset_info.json"] + c.lists
        shard_files = list(c.shards)
        if not case.get("dense"):
            # quick tier: the description, two lists (deepest first) and three
            # shards per dataset are swept completely; thorough sweeps all
            lists = sorted(c.lists, key=lambda r: (-r.count("/"), r))
            k = case["bitseed"] % max(len(lists), 1)
            lists = (lists[k:] + lists[:k])[:2]
            meta_files = ["dataset_info.json"] + lists
            k = case["bitseed"] % max(len(shard_files), 1)
            shard_files = (shard_files[k:] + shard_files[:k])[:3]
        for rel in meta_files:
            role = "info" if rel == "dataset_info.json" else "list"
            size = (c.root / rel).stat().st_size
            for pos in range(size):
                bit = (pos + case["bitseed"]) % 8
                one_fault(c, ctx, rel, role, "flip", pos, bit, b"", None, None,
                          hist_fp)
                one_fault(c, ctx, rel, role, "truncate", pos, 0, b"", None,
                          None, hist_fp)
            data = (c.root / rel).read_bytes()
            for pos in range(size):
                structural = data[pos] in (0x0A, 0x20) and (
                    pos == 0 or data[pos - 1] != 0x20)
                if case.get("dense") or structural:
                    for v in range(len(INTERESTING)):
                        one_fault(c, ctx, rel, role, "subst", pos, v, b"",
                                  None, None, hist_fp)
                    for v in range(len(INSERTS)):
                        one_fault(c, ctx, rel, role, "insert", pos, v, b"",
                                  None, None, hist_fp)
            for v in range(N_EDITS):
                one_fault(c, ctx, rel, role, "edit", 0, v, b"", None, None,
                          hist_fp)
            one_fault(c, ctx, rel, role, "extend", 0, 0, b" ", None, None,
                      hist_fp)
            one_fault(c, ctx, rel, role, "extend", 0, 0, b"\n", None, None,
                      hist_fp)
            one_fault(c, ctx, rel, role, "delete", 0, 0, b"", None, None,
                      hist_fp)
            for version in c.versions[:-1]:
                one_fault(c, ctx, rel, role, "rollback", 0, 0, b"", None,
                          version, hist_fp)
                one_fault(c, ctx, rel, role, "rollback_chain", 0, 0, b"", None,
                          version, hist_fp)
            if role == "list":
                for other in c.lists:
                    one_fault(c, ctx, rel, role, "foreign", 0, 0, b"", other,
                              None, hist_fp)
        for rel in shard_files:
            size = (c.root / rel).stat().st_size
            offs = set(range(min(256, size))) | set(
                range(max(0, size - 256), size)) | set(range(0, size, 37))
            for pos in sorted(offs):
                one_fault(c, ctx, rel, "shard", "flip", pos,
                          (pos + case["bitseed"]) % 8, b"", None, None,
                          hist_fp)
            for pos in sorted(offs)[::3]:
                one_fault(c, ctx, rel, "shard", "truncate", pos, 0, b"", None,
                          None, hist_fp)
            one_fault(c, ctx, rel, "shard", "extend", 0, 0, b"\x00", None,
                      None, hist_fp)
            one_fault(c, ctx, rel, "shard", "delete", 0, 0, b"", None, None,
                      hist_fp)
            for other in c.shards:
                if other != rel:
                    one_fault(c, ctx, rel, "shard", "swap", 0, 0, b"", other,
                              None, hist_fp)
        raised, how = c.check_raises()
        if raised:
            raise RuntimeError("harness: dataset not restored after sweep: " +
                               how)
        ctx.count("swept_datasets")
    finally:
        dsops.rmtree(root)


def setup(tier):
    refhash.self_test()


STAGES = [
    Stage(name="faults",
          run=run_faults,
          strategy=lambda tier: strategy_faults(tier),
          examples={
              "quick": 240,
              "thorough": 3000
          },
          fork=True,
          setup=setup),
    Stage(name="sweep",
          run=run_sweep,
          strategy=lambda tier: strategy_sweep(tier),
          examples={
              "quick": 16,
              "thorough": 64
          },
          fork=True,
          timeout=1800,
          setup=setup),
]
