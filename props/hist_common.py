"""Shared history driver for C04 / C08 / C05 / C16: generates histories and
runs them, calling the per-property hook after every completed session."""
from __future__ import annotations

from hypothesis import strategies as st

from vlib import dsops, env, history


@st.composite
def st_history_case(draw,
                    tier,
                    tfrec_weight=1,
                    create_again=False,
                    max_ops=None,
                    hashes=None,
                    payload=True,
                    multi=True,
                    busy=False,
                    min_ops=1,
                    var_attr=False):
    desc = draw(
        history.st_desc(tfrec_weight=tfrec_weight,
                        hashes=hashes,
                        payload=payload,
                        var_attr=var_attr))
    if max_ops is None:
        max_ops = 5 if tier == "quick" else 7
    if desc["fmt"] == "tfrec":
        max_ops = min(max_ops, 3)
    ops = draw(
        history.st_ops(desc["eps"],
                       max_ops=max_ops,
                       multi=multi,
                       create_again=create_again,
                       busy=busy,
                       min_ops=min_ops))
    return {"desc": desc, "ops": ops}


def run_history(case, ctx, after_session, on_failed_session=None,
                on_create_again=None, prefix="h"):
    """Drive the case.  ``after_session(h, info)`` is the property's invariant.
    Returns the History (dataset already removed) or None."""
    root = env.scratch_dir(prefix)
    try:
        h = history.History(root / "ds", case["desc"])
        for op in case["ops"]:
            if op["k"] == "create_again":
                if on_create_again is not None:
                    on_create_again(h)
                continue
            try:
                info = h.apply(op)
            except history.SessionFailed as exc:
                if on_failed_session is not None:
                    on_failed_session(h, exc)
                ctx.label("aborted_history:" + type(exc.exc).__name__)
                ctx.count("aborted_histories")
                return h
            after_session(h, info)
        return h
    finally:
        dsops.rmtree(root)


def history_labels(h, ctx):
    kinds = [s.get("relation") for s in h.sessions]
    for k in set(kinds):
        ctx.label(f"session:{k}")
    ctx.label("fmt=" + h.desc["fmt"])
    if any(s.get("reopened") for s in h.sessions):
        ctx.label("reopened")
    ctx.count("sessions", len(h.sessions))


def history_nontrivial(h) -> bool:
    """>= 2 sessions of which >= 1 is nested / reused / multi-writer."""
    if len(h.sessions) < 2:
        return False
    return any(
        s.get("relation") in ("reuse", "nested", "ancestor", "new", "multi-sp",
                              "multi-mp") and s.get("written", 0) > 0
        for s in h.sessions)
