"""C01  Round-trip fidelity: every value read equals the value written.

Domain: (format, compression, 1..3 payload attributes + an id, values drawn as
BIT PATTERNS of the declared dtype with planted specials (min/max, -0.0,
+-inf, quiet and signalling NaN payloads, subnormals), shapes of rank 0..4,
bytes incl. empty / NUL-only / NUL-terminated / 0xFF, Unicode strings incl.
NUL and astral characters) x presentation per attribute (C order, Fortran
order, strided view, transposed view, big-endian, safely-castable narrower
dtype, NumPy scalar / 0-d array, Python int/float/list, caller re-using one
buffer object for consecutive examples) x order of the keys of the example
dict (declared order, reversed, rotated) x every applicable reader; at
generated positions a malformed example (wrong shape of one attribute, or an
array where bytes / str is declared) is offered first: the writer refuses it,
the caller carries on, and everything read back still is what was written.
One case in sixteen has an attribute whose single example exceeds 1 MiB (a
generated 7-element pattern repeated): block sizes of codecs and readers.
Stage ``widen`` (enumerated, exhaustive over its grid): every (format, declared
dtype, safely castable narrower dtype) cell with all special values of the
narrower dtype in one array, for the "narrower dtype" presentations.
Oracle (round trip): expected = the logical array (C order) cast safely to the
declared dtype, as little-endian bytes.  fb: returned dtype == declared and
bytes equal; npz: returned array must be safely castable to the declared dtype
and equal bitwise after that cast; tfrec: integers equal as Python ints and
returned as int64, float16/float32 bitwise, bytes identical, str == UTF-8
bytes.  Shapes equal the declaration everywhere.  A write the format rejects
is C18's business (counted), but a case in which every attribute is a plain
C-ordered ndarray of the declared dtype must not be rejected.
"""
from __future__ import annotations

import numpy as np
from hypothesis import strategies as st

from vlib import dsops, env, oracles
from vlib.core import Stage, hang_is_violation

ID = "C01"
LEVEL = "exploration"
RULE = ("Hypothesis cases as described in the module doc-string, 2..7 "
        "examples per dataset, eps 1..3 so several shards exist; every "
        "applicable reader reads the same dataset (tf.data on fb/npz for a "
        "quarter of the cases). Non-trivial: a non-C presentation, a planted "
        "special value, rank >= 2, a compression or more than one reader "
        "compared. Distinct by (format, compression, dtypes, ranks, "
        "presentations, readers).")
ASSUMPTIONS = [
    "float128 (x87 padding bytes are not data) and bool are excluded; str on "
    "npz and bytes/str on fb are not supported declarations",
    "narrower-dtype presentations: expected value = numpy's own safe cast of "
    "the narrow array to the declared dtype; a NaN that is widened only has "
    "to stay a NaN (its payload after a conversion is not defined)",
]

DT = {
    "fb": dsops.NUMERIC_FB,
    "npz": dsops.NUMERIC_FB + ["bytes", "bytes"],
    "tfrec": ["int8", "uint8", "int32", "int64", "float16", "float32",
              "bytes", "str"],
}
NARROWER = {
    "int16": ["int8", "uint8"],
    "int32": ["int8", "uint8", "int16", "uint16"],
    "int64": ["int8", "int16", "int32", "uint8", "uint16", "uint32"],
    "uint16": ["uint8"],
    "uint32": ["uint8", "uint16"],
    "uint64": ["uint8", "uint16", "uint32"],
    "float32": ["float16", "int8", "uint8", "int16", "uint16"],
    "float64": ["float16", "float32", "int8", "int16", "int32", "uint8",
                "uint16", "uint32"],
    "float16": ["int8", "uint8"],
}
FLOAT_SPECIALS = {
    "float16": ["0000", "0080", "007c", "00fc", "017c", "01fc", "007e", "ff7f",
                "0100", "ff03", "0004", "fffb", "ff7b"],
    "float32": ["00000000", "00000080", "0000807f", "000080ff", "0100a07f",
                "0100e07f", "0000c07f", "ffffff7f", "01000000", "ffff7f00",
                "00008000", "ffff7fff", "ffff7f7f", "0100807f"],
    "float64": ["0000000000000000", "0000000000000080", "000000000000f07f",
                "000000000000f0ff", "010000000000f47f", "010000000000fc7f",
                "000000000000f87f", "ffffffffffffff7f", "0100000000000000",
                "ffffffffffff0f00", "0000000000001000", "ffffffffffffefff",
                "010000000000f07f"],
}


def int_specials(dt):
    info = np.iinfo(dt)
    vals = [info.min, info.max, 0, 1, info.max - 1, info.min + 1]
    if info.min < 0:
        vals.append(-1)
    return [np.array(v, dtype=np.dtype(dt).newbyteorder("<")).tobytes().hex()
            for v in vals]


def st_element(dtype):
    dt = np.dtype(dtype)
    specials = FLOAT_SPECIALS.get(dtype) or int_specials(dtype)
    return st.one_of(
        st.binary(min_size=dt.itemsize, max_size=dt.itemsize).map(bytes.hex),
        st.sampled_from(specials))


SHAPES = [[], [], [1], [3], [5], [2, 2], [2, 3], [3, 1], [1, 4], [2, 1, 3],
          [2, 2, 2], [1, 2, 1, 2], [2, 1, 2, 2]]
PRESENT = ["c", "c", "f", "strided", "transposed", "be", "narrow",
           "narrow-first", "scalar", "pyobj", "reuse", "reuse"]
BYTES_SPECIAL = [b"", b"\x00", b"\x00\x00", b"abc\x00", b"\x00abc",
                 b"a\x00b\x00", b"\xff\xff", b"\xff\x00", b"x"]


@st.composite
def st_attr(draw, fmt, i, n_examples):
    dtype = draw(st.sampled_from(DT[fmt]))
    if dtype == "bytes":
        vals = draw(
            st.lists(st.one_of(st.binary(max_size=12),
                               st.sampled_from(BYTES_SPECIAL)).map(bytes.hex),
                     min_size=n_examples,
                     max_size=n_examples))
        return {"name": f"a{i}", "dtype": dtype, "shape": [], "values": vals,
                "present": "c"}
    if dtype == "str":
        vals = draw(
            st.lists(st.text(max_size=8), min_size=n_examples,
                     max_size=n_examples))
        return {"name": f"a{i}", "dtype": dtype, "shape": [], "values": vals,
                "present": "c"}
    shape = draw(st.sampled_from(SHAPES))
    present = draw(st.sampled_from(PRESENT))
    tile = 0
    if i == 0 and draw(st.integers(0, 15)) == 0:
        # one example is larger than 1 MiB (block sizes of codecs and
        # readers): a generated 7-element pattern repeated
        tile = 7
        shape = [(1 << 20) // np.dtype(dtype).itemsize + 17]
        present = draw(st.sampled_from(["c", "c", "be", "strided", "reuse"]))
    src_dtype = dtype
    if present in ("narrow", "narrow-first"):
        if dtype in NARROWER:
            src_dtype = draw(st.sampled_from(NARROWER[dtype]))
        else:
            present = "c"
    size = int(np.prod(shape)) if shape else 1
    if tile:
        size = tile
    vals = draw(
        st.lists(st.lists(st_element(src_dtype), min_size=size,
                          max_size=size).map("".join),
                 min_size=n_examples,
                 max_size=n_examples))
    if present == "narrow-first":
        # only the first example arrives in the narrower dtype; the others use
        # the full range of the declared dtype
        rest = draw(
            st.lists(st.lists(st_element(dtype), min_size=size,
                              max_size=size).map("".join),
                     min_size=n_examples - 1,
                     max_size=n_examples - 1))
        vals = [vals[0]] + rest
    return {
        "name": f"a{i}",
        "dtype": dtype,
        "shape": shape,
        "values": vals,
        "present": present,
        "src_dtype": src_dtype,
        "tile": tile,
    }


@st.composite
def strategy_case(draw, tier):
    fmt = draw(st.sampled_from(["fb"] * 5 + ["npz"] * 3 + ["tfrec"] * 2))
    comp = draw(st.sampled_from(dsops.COMPRESSIONS[fmt]))
    n = draw(st.integers(2, 7 if fmt != "tfrec" else 4))
    attrs = [
        draw(st_attr(fmt, i, n)) for i in range(draw(st.integers(1, 3)))
    ]
    return {
        "fmt": fmt,
        "compression": comp,
        "eps": draw(st.integers(1, 3)),
        "n": n,
        "attrs": attrs,
        "fp": draw(st.integers(1, 4)),
        "tf": draw(st.integers(0, 3)) == 0,
        # container presentation: order of the keys of the example dict
        # (0 = declared order, otherwise a rotation / reversal)
        "order": draw(st.sampled_from([0, 0, 1, 2, 3])),
        # attempted writes of a malformed example (position, attribute) which
        # the writer refuses; the caller carries on with the next example
        "bad": draw(st.one_of(
            st.just([]), st.just([]),
            st.lists(st.tuples(st.integers(0, 6), st.integers(0, 3)).map(list),
                     min_size=1, max_size=2))),
    }


def logical(attr, k):
    """(array to hand to the writer BEFORE presentation, expected LE bytes)"""
    dtype = attr["dtype"]
    if dtype == "bytes":
        b = bytes.fromhex(attr["values"][k])
        return b, b
    if dtype == "str":
        return attr["values"][k], attr["values"][k].encode("utf-8")
    src = np.dtype(attr.get("src_dtype", dtype))
    if attr.get("present") == "narrow-first" and k > 0:
        src = np.dtype(dtype)
    raw = bytes.fromhex(attr["values"][k])
    if attr.get("tile"):
        need = int(np.prod(attr["shape"])) * src.itemsize
        raw = (raw * (need // len(raw) + 1))[:need]
    arr = np.frombuffer(raw, dtype=src.newbyteorder("<")).reshape(
        tuple(attr["shape"])).astype(src)  # native, C order
    expected = arr.astype(np.dtype(dtype)).astype(
        np.dtype(dtype).newbyteorder("<")).tobytes()
    return arr, expected


def has_nan(arr) -> bool:
    return arr.dtype.kind == "f" and bool(np.isnan(arr).any())


def present(attr, arr, reuse_buf):
    """Apply the presentation; returns (value, effective presentation)."""
    p = attr["present"]
    if not isinstance(arr, np.ndarray):
        return arr, "c"
    if p == "f" and arr.ndim >= 2:
        v = np.asfortranarray(arr)
        assert not v.flags.c_contiguous or arr.size <= 1 or 1 in arr.shape
        return v, "f"
    if p == "strided" and arr.ndim >= 1:
        big = np.zeros(arr.shape[:-1] + (arr.shape[-1] * 2 + 1,),
                       dtype=arr.dtype)
        big[..., 1::2] = arr
        return big[..., 1::2], "strided"
    if p == "transposed" and arr.ndim >= 2:
        return np.ascontiguousarray(arr.T).T, "transposed"
    if p == "be":
        return arr.astype(arr.dtype.newbyteorder(">")), "be"
    if p in ("narrow", "narrow-first"):
        return arr, p
    if p == "scalar" and arr.ndim == 0:
        return arr[()], "scalar"
    if p == "pyobj" and not has_nan(arr) and arr.dtype in (
            np.dtype("int64"), np.dtype("float64")):
        return arr.tolist(), "pyobj"
    if p == "reuse":
        if reuse_buf.get(attr["name"]) is None:
            reuse_buf[attr["name"]] = np.empty(arr.shape, dtype=arr.dtype)
        buf = reuse_buf[attr["name"]]
        buf[...] = arr
        return buf, "reuse"
    return np.array(arr, order="C", copy=True), "c"


def compare(ctx, desc, fmt, attr, got, want: bytes, iface, what):
    dtype = attr["dtype"]
    sig_tail = (fmt, dtype, iface)
    if dtype == "bytes":
        g = got.item() if isinstance(got, np.ndarray) else got
        g = bytes(g) if isinstance(g, (np.bytes_, bytes, bytearray)) else g
        if g != want:
            if (fmt == "npz" and isinstance(g, bytes) and
                    want.endswith(b"\x00") and g == want.rstrip(b"\x00")):
                return ctx.fail("value", ("npz", "bytes", "trailing-NUL-lost"),
                                f"{what}: wrote {want!r} read {g!r}")
            return ctx.fail("value", ("bytes-differ",) + sig_tail,
                            f"{what}: wrote {want!r} read {g!r}")
        return False
    if dtype == "str":
        g = got.item() if isinstance(got, np.ndarray) else got
        if isinstance(g, str):
            g = g.encode("utf-8")
        if bytes(g) != want:
            return ctx.fail("value", ("str-differ",) + sig_tail,
                            f"{what}: wrote {want!r} read {g!r}")
        return False
    declared = np.dtype(dtype)
    g = np.asarray(got)
    if tuple(g.shape) != tuple(attr["shape"]):
        return ctx.fail("shape", ("shape-differs",) + sig_tail,
                        f"{what}: declared {attr['shape']} got {g.shape}")
    if fmt == "fb":
        if g.dtype.newbyteorder("=") != declared:
            return ctx.fail("dtype", ("dtype-differs",) + sig_tail,
                            f"{what}: declared {declared} got {g.dtype}")
        gb = np.array(g, order="C").astype(
            declared.newbyteorder("<")).tobytes()
    elif fmt == "npz":
        if not np.can_cast(g.dtype, declared, "safe"):
            return ctx.fail("dtype", ("dtype-not-castable",) + sig_tail,
                            f"{what}: declared {declared} got {g.dtype}")
        gb = np.array(g, order="C").astype(declared).astype(
            declared.newbyteorder("<")).tobytes()
    else:  # tfrec
        if declared.kind in "iu":
            if g.dtype != np.dtype("int64"):
                return ctx.fail("dtype", ("int-not-widened",) + sig_tail,
                                f"{what}: got {g.dtype}")
            w = np.frombuffer(want, dtype=declared.newbyteorder("<")).reshape(
                g.shape)
            if [int(x) for x in g.reshape(-1)
                ] != [int(x) for x in w.reshape(-1)]:
                return ctx.fail(
                    "value", ("int-differ",) + sig_tail,
                    f"{what}: wrote {w.tolist()} read {g.tolist()}")
            return False
        if g.dtype != declared:
            return ctx.fail("dtype", ("dtype-differs",) + sig_tail,
                            f"{what}: declared {declared} got {g.dtype}")
        gb = np.array(g, order="C").astype(
            declared.newbyteorder("<")).tobytes()
    if gb != want and attr.get("present") in ("narrow", "narrow-first") and \
            declared.kind == "f":
        # a NaN that went through a WIDENING conversion has no defined payload
        # (numpy and TensorFlow map it differently): NaN-ness must survive,
        # every other element must be bit-identical
        w_arr = np.frombuffer(want, dtype=declared.newbyteorder("<"))
        g_arr = np.frombuffer(gb, dtype=declared.newbyteorder("<"))
        nan = np.isnan(w_arr)
        if (np.isnan(g_arr) == nan).all():
            it = declared.itemsize
            wb = np.frombuffer(want, dtype=f"V{it}")
            gb2 = np.frombuffer(gb, dtype=f"V{it}")
            if (wb[~nan] == gb2[~nan]).all():
                return False
    if gb != want:
        if fmt == "tfrec" and dtype == "float32":
            w = np.frombuffer(want, dtype="<u4")
            r = np.frombuffer(gb, dtype="<u4")
            diff = w != r
            snan = ((w & 0x7F800000) == 0x7F800000) & (
                (w & 0x007FFFFF) != 0) & ((w & 0x00400000) == 0)
            if np.all(~diff | snan) and np.all(r[diff] == (w[diff] |
                                                          0x00400000)):
                return ctx.fail(
                    "value", ("tfrec", "float32", "signalling-nan-quieted"),
                    f"{what}: wrote bits {w[diff][:3]} read {r[diff][:3]}")
        return ctx.fail(
            "value", ("bits-differ",) + sig_tail + (attr["present"],),
            f"{what}: wrote {want.hex()} read {gb.hex()} "
            f"(presentation {attr['present']}, shape {attr['shape']})")
    return False


def reorder(values: dict, order: int) -> dict:
    """The same example in a dict whose keys come in another order."""
    keys = list(values)
    if order == 1:
        keys = keys[::-1]
    elif order == 2:
        keys = keys[1:] + keys[:1]
    elif order == 3:
        keys = keys[-1:] + keys[:-1]
    return {k: values[k] for k in keys}


def attempt_malformed(filler, desc, values: dict, j: int) -> str:
    """Try to write `values` with attribute j replaced by something of the
    wrong shape (fixed-size attribute) or of the wrong kind (an array where
    bytes / str is declared).  The caller catches the error and goes on."""
    attr = desc["attrs"][j % len(desc["attrs"])]
    bad = dict(values)
    if attr["dtype"] in ("bytes", "str"):
        bad[attr["name"]] = np.arange(3, dtype=np.uint8)
    else:
        dt = np.dtype(attr["dtype"])
        bad[attr["name"]] = np.zeros(tuple(attr["shape"]) + (2,), dtype=dt)
    try:
        filler.write_example(values=bad, split="train")
    except Exception:  # pylint: disable=broad-except
        return "refused"
    return "accepted"


def run_case(case, ctx):
    from sedpack.io import Dataset
    fmt = case["fmt"]
    desc = {
        "fmt": fmt,
        "compression": case["compression"],
        "eps": case["eps"],
        "hashes": ["xxh64"],
        "attrs": [{"name": "id", "dtype": "int64", "shape": []}] +
                 [{k: a[k] for k in ("name", "dtype", "shape")}
                  for a in case["attrs"]],
    }
    n = case["n"]
    root = env.scratch_dir("c01")
    try:
        ds = dsops.create_dataset(root / "ds", desc)
        expected = {}
        reuse_buf = {}
        presentations = set()
        specials = False
        rejected = None
        accepted_bad = False
        with ds.filler() as filler:
            for k in range(n):
                values = {"id": np.int64(k)}
                exp = {}
                for a in case["attrs"]:
                    arr, want = logical(a, k)
                    v, eff = present(a, arr, reuse_buf)
                    presentations.add(eff)
                    values[a["name"]] = v
                    exp[a["name"]] = want
                    if isinstance(arr, np.ndarray) and a["dtype"] in \
                            FLOAT_SPECIALS:
                        specials = specials or any(
                            a["values"][k][i:i + 2 * arr.dtype.itemsize] in
                            FLOAT_SPECIALS.get(a.get("src_dtype", a["dtype"]),
                                               [])
                            for i in range(0, len(a["values"][k]),
                                           2 * arr.dtype.itemsize))
                values = reorder(values, case.get("order", 0))
                for pos, j in case.get("bad", []):
                    if pos == k:
                        outcome = attempt_malformed(filler, desc, values, j)
                        ctx.label("malformed-write=" + outcome)
                        if outcome == "accepted":
                            accepted_bad = True
                if accepted_bad:
                    break
                try:
                    filler.write_example(values=values, split="train")
                except Exception as exc:  # pylint: disable=broad-except
                    rejected = (k, exc)
                    break
                expected[k] = exp
        if accepted_bad:
            # which writes must be refused is C18's property; without the
            # refusal there is no expected content to compare with
            ctx.reject("malformed-write-accepted:" + fmt)
            return
        if case.get("order", 0):
            presentations.add("key-order")
        if rejected is not None:
            k, exc = rejected
            if presentations <= {"c", "reuse", "scalar", "key-order"}:
                ctx.fail(
                    "accepts-basic", ("basic-write-rejected", fmt,
                                      type(exc).__name__),
                    f"{fmt}: example {k} with plain C-ordered ndarrays of the "
                    f"declared dtypes "
                    f"{[(a['dtype'], a['shape']) for a in case['attrs']]} was "
                    f"rejected: {exc!r}")
            ctx.reject("write-rejected:" + fmt)
            return
        fresh = Dataset(root / "ds")
        readers = []
        for iface in dsops.INTERFACES:
            if not dsops.interface_applicable(iface, desc):
                continue
            if iface == "tfdata" and fmt != "tfrec" and not case["tf"]:
                continue
            readers.append(iface)
        for iface in readers:
            opts = {"shuffle": 0}
            if dsops.iface_accepts(iface, "file_parallelism"):
                opts["file_parallelism"] = case["fp"]
            ok, got = oracles.guarded(
                ctx, "value", ("read-raised", fmt, iface),
                f"{fmt}/{case['compression']!r} {iface} attrs "
                f"{[(a['dtype'], a['shape']) for a in case['attrs']]}",
                lambda: dsops.read_all(fresh, "train", iface, **opts))
            if not ok:
                continue
            if len(got) != n:
                ctx.fail("count", ("example-count", fmt, iface),
                         f"{iface}: wrote {n} read {len(got)}")
            for ex in got:
                k = dsops.ex_id_of(ex)
                for a in case["attrs"]:
                    what = (f"{fmt}/{case['compression']!r} {iface} example "
                            f"{k} attribute {a['name']}:{a['dtype']}")
                    if a["name"] not in ex:
                        ctx.fail("value", ("attribute-missing", fmt, iface),
                                 what)
                    compare(ctx, desc, fmt, a, ex[a["name"]],
                            expected[k][a["name"]], iface, what)
            ctx.count("reads")
            ctx.evaluated()
            ctx.label("reader=" + iface)
            if iface in ("sync", "concurrent", "async") and case["n"] > 2:
                # a shuffled pass keeps several shards open at once; every
                # example must still carry exactly what was written for its id
                ok, got = oracles.guarded(
                    ctx, "value", ("read-raised", fmt, iface, "shuffled"),
                    f"{fmt}/{case['compression']!r} {iface} shuffled",
                    lambda: dsops.read_all(fresh, "train", iface,
                                           **{**opts, "shuffle": 5}))
                if ok:
                    if sorted(dsops.ex_id_of(e) for e in got) != list(range(n)):
                        ctx.fail("count", ("example-count", fmt, iface,
                                           "shuffled"),
                                 f"{iface} shuffled: ids "
                                 f"{sorted(dsops.ex_id_of(e) for e in got)}")
                    for ex in got:
                        k = dsops.ex_id_of(ex)
                        if k not in expected:
                            continue
                        for a in case["attrs"]:
                            compare(ctx, desc, fmt, a, ex[a["name"]],
                                    expected[k][a["name"]], iface,
                                    f"{fmt}/{case['compression']!r} {iface} "
                                    f"(shuffled) example {k} attribute "
                                    f"{a['name']}:{a['dtype']}")
        ctx.label("fmt=" + fmt, *["present=" + p for p in presentations])
        ranks = sorted({len(a["shape"]) for a in case["attrs"]})
        if (presentations - {"c"} or specials or max(ranks) >= 2 or
                case["compression"] or len(readers) > 1):
            ctx.nontrivial([
                fmt, case["compression"],
                [a["dtype"] for a in case["attrs"]], ranks,
                sorted(presentations), readers
            ])
    finally:
        dsops.rmtree(root)


def enumerate_widen(tier):
    """Every (format, declared dtype, safely castable narrower dtype) cell
    once, with ALL special values of the narrower dtype (min/max, -0.0,
    +-inf, NaNs, subnormals) in one array: who widens a value -- the writer,
    NumPy, TensorFlow -- decides what happens to subnormals and payloads, and
    the random stage pairs such a value with the narrower-dtype presentation,
    the format and the tf.data reader only once in thousands of cases."""
    cases = []
    for fmt in ("fb", "npz", "tfrec"):
        for decl, narrower in NARROWER.items():
            if decl not in DT[fmt]:
                continue
            for src in narrower:
                specials = FLOAT_SPECIALS.get(src) or int_specials(src)
                values = "".join(specials)
                for present in ("narrow", "narrow-first"):
                    vals = [values, values]
                    if present == "narrow-first":
                        wide = FLOAT_SPECIALS.get(decl) or int_specials(decl)
                        vals[1] = "".join(
                            (wide * len(specials))[:len(specials)])
                    cases.append({
                        "fmt": fmt,
                        "compression": "",
                        "eps": 2,
                        "n": 2,
                        "attrs": [{
                            "name": "a0",
                            "dtype": decl,
                            "shape": [len(specials)],
                            "values": vals,
                            "present": present,
                            "src_dtype": src,
                            "tile": 0,
                        }],
                        "fp": 1,
                        "tf": True,
                        "order": 0,
                        "bad": [],
                    })
    return cases


STAGES = [
    Stage(name="widen",
          run=run_case,
          enumerate=enumerate_widen,
          exhaustive=True,
          fork=True,
          rust=True,
          timeout=150,
          timeout_violation=hang_is_violation(
              "value", "writing and reading back a small dataset")),
    Stage(name="roundtrip",
          run=run_case,
          strategy=lambda tier: strategy_case(tier),
          examples={
              "quick": 1800,
              "thorough": 20000
          },
          fork=True,
          rust=True,
          timeout=150,
          timeout_violation=hang_is_violation(
              "value", "writing and reading back a small dataset"))
]
