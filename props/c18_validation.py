"""C18  Write-time validation is all-or-nothing and never poisons a shard.

format x declaration (1..3 payload attributes; dtypes the format supports and
dtypes it does not) x a write sequence of good examples with one or two bad
ones x which attribute is wrong x violation kind {wrong dimension, wrong rank,
scalar for array, unsafe dtype, foreign dtype, ragged container, missing
attribute} x position in the shard x optional metadata change on the bad
write.  The caller catches the exception inside the ``with`` and continues.
Oracle, two clauses:
 (reject => no trace) if write_example raised: the ids read afterwards are
   exactly the ids of the accepted writes with unchanged content, every count
   in the metadata tree excludes the rejected write, and every later VALID
   write is accepted;
 (accept => readable) if write_example returned: the session closes, the
   dataset opens and every applicable interface reads every shard without
   error and returns that example with the declared shape.
Which of the two happens is the format's choice wherever the statement leaves
it open; a *shape* violation of a fixed-size attribute must be rejected by
every format.
Stage ``grid`` (enumerated, exhaustive over its grid): every (format, declared
dtype, scalar / rank-2 shape, violation kind) cell once, the violation on the
very first write and on the first write after a full shard.
"""
from __future__ import annotations

from collections import Counter

import numpy as np
from hypothesis import strategies as st

from vlib import dsops, env, oracles
from vlib.core import Stage, hang_is_violation

ID = "C18"
LEVEL = "exploration"
RULE = ("Hypothesis cases (format, eps 1..4, 1..3 payload attributes with "
        "supported and unsupported dtypes, 4..12 writes of which 1..2 carry a "
        "violation (kind, attribute), metadata per write). Non-trivial: a "
        "bad write that is neither the first nor the last operation. "
        "Distinct by (format, declared dtypes, violation kinds, attribute "
        "positions, position of the bad write within its shard, metadata "
        "change on the bad write).")
ASSUMPTIONS = [
    "extra keys in the value dict and orphan empty shard files are outside "
    "the statement and not asserted",
    "a declaration the format refuses entirely (every write raises) "
    "satisfies the property trivially and is labelled, not counted",
]

# supported dtypes are listed three times: refused declarations are a
# corner of the domain, not its bulk
DT_FB = dsops.NUMERIC_FB * 3 + ["bytes", "str"]
DT_NPZ = dsops.NUMERIC_FB * 2 + ["bytes"] * 4
DT_TFREC = ["int8", "uint8", "int32", "int64", "float16", "float32", "bytes",
            "str"] * 3 + ["int16", "uint16", "uint32", "uint64", "float64"]
KINDS = ["dim", "rank", "scalar", "unsafe", "unsafe-sign", "foreign",
         "ragged", "missing"]


def st_attr(fmt):
    dts = {"fb": DT_FB, "npz": DT_NPZ, "tfrec": DT_TFREC}[fmt]

    @st.composite
    def build(draw, i):
        dt = draw(st.sampled_from(dts))
        if dt in ("bytes", "str"):
            shape = []
        else:
            shape = draw(
                st.sampled_from([[], [3], [2, 2], [2, 3], [1], [2, 1, 2]]))
        return {"name": f"a{i}", "dtype": dt, "shape": shape}

    return build


@st.composite
def strategy_case(draw, tier):
    fmt = draw(st.sampled_from(["fb", "fb", "npz", "npz", "tfrec"]))
    n_attrs = draw(st.integers(1, 3))
    attrs = [{"name": "id", "dtype": "int64", "shape": []}]
    for i in range(n_attrs):
        attrs.append(draw(st_attr(fmt)(i)))
    eps = draw(st.integers(1, 4))
    n_writes = draw(st.integers(4, 12 if fmt != "tfrec" else 8))
    writes = []
    for _ in range(n_writes):
        writes.append({
            "split": draw(st.integers(0, 1)),
            "bad": None,
            "meta": draw(st.sampled_from([0, 0, 0, 2, 3])),
        })
    for _ in range(draw(st.integers(1, 2))):
        pos = draw(st.integers(0, n_writes - 1))
        writes[pos]["bad"] = {
            "attr": draw(st.integers(1, n_attrs)),
            "kind": draw(st.sampled_from(KINDS)),
        }
        writes[pos]["meta"] = draw(st.sampled_from([0, 2, 3, 4]))
    return {
        "fmt": fmt,
        "comp": draw(st.integers(0, 6)),
        "eps": eps,
        "attrs": attrs,
        "writes": writes
    }


def bad_value(attr, good, kind):
    """Returns (value, is_shape_violation) or None if not applicable."""
    dtype, shape = attr["dtype"], tuple(attr["shape"])
    variable = dtype in ("bytes", "str")
    if kind == "missing":
        return "MISSING", False
    if variable:
        if kind == "foreign":
            return (np.arange(3, dtype=np.float32) if dtype == "bytes" else
                    12345), False
        return None
    arr = np.asarray(good)
    if kind == "dim":
        if not shape:
            return np.stack([arr, arr]), True
        new = list(shape)
        new[-1] += 1
        return np.resize(arr, new), True
    if kind == "rank":
        if not shape:
            return arr.reshape((1,)), True
        return arr.reshape((-1,)) if len(shape) > 1 else arr.reshape(
            shape + (1,)), True
    if kind == "scalar":
        if not shape:
            return None
        return arr.reshape(-1)[0], True
    if kind == "unsafe":
        dt = np.dtype(dtype)
        if dt.kind in "iu":
            if dt.itemsize < 8:
                return (arr.astype(np.int64) + (1 << 40)), False
            return arr.astype(np.float64) + 0.5, False
        if dt.kind == "f":
            if dt.itemsize < 8:
                return arr.astype(np.float64) * (1 + 1e-12), False
            return arr.astype(np.complex128), False
        return None
    if kind == "unsafe-sign":
        # same width, other signedness (or float of the same width for ints):
        # not a safe cast although no bytes are lost
        dt = np.dtype(dtype)
        if dt.kind == "u":
            other = np.dtype(f"int{dt.itemsize * 8}")
            return (np.zeros(shape, dtype=other) - 3), False
        if dt.kind == "i":
            other = np.dtype(f"uint{dt.itemsize * 8}")
            return (np.zeros(shape, dtype=other) + np.iinfo(other).max - 2), \
                False
        if dt.kind == "f" and dt.itemsize >= 4:
            other = np.dtype(f"int{dt.itemsize * 8}")
            return (np.zeros(shape, dtype=other) + np.iinfo(other).max - 2), \
                False
        return None
    if kind == "foreign":
        if not shape:
            return "abc", False
        return np.full(shape, "x"), False
    if kind == "ragged":
        if not shape:
            return None
        return [[1, 2], [3]], True
    raise ValueError(kind)


def run_case(case, ctx):
    from sedpack.io import Dataset
    fmt = case["fmt"]
    comps = dsops.COMPRESSIONS[fmt]
    desc = {
        "fmt": fmt,
        "compression": comps[case["comp"] % len(comps)],
        "eps": case["eps"],
        "hashes": ["xxh64"],
        "attrs": case["attrs"],
    }
    eps = case["eps"]
    root = env.scratch_dir("c18")
    try:
        # does the format accept this declaration at all?  (a declaration it
        # refuses makes every write raise, which is "reject, no trace")
        declaration_ok = True
        try:
            probe = dsops.create_dataset(root / "probe", desc)
            with probe.filler() as pf:
                pf.write_example(values=dsops.example_for(desc, 0),
                                 split="train")
        except Exception:  # pylint: disable=broad-except
            declaration_ok = False
        ds = dsops.create_dataset(root / "ds", desc)
        accepted = []  # (id, split, is_bad_but_accepted)
        events = []
        fp_bits = []
        per_split_count = Counter()
        bad_seen = False
        close_error = None
        from vlib import history
        try:
            with ds.filler() as filler:
                for ex_id, w in enumerate(case["writes"]):
                    split = dsops.SPLITS[w["split"]]
                    values = dsops.example_for(desc, ex_id)
                    kwargs = {}
                    meta = history.meta_of(w["meta"])
                    if meta is not None:
                        kwargs["custom_metadata"] = meta
                    is_bad = False
                    shape_violation = False
                    if w["bad"] is not None:
                        attr = desc["attrs"][w["bad"]["attr"] % len(
                            desc["attrs"])]
                        if attr["name"] == "id":
                            attr = desc["attrs"][1]
                        bv = bad_value(attr, values[attr["name"]],
                                       w["bad"]["kind"])
                        if bv is not None:
                            is_bad = True
                            shape_violation = bv[1]
                            if isinstance(bv[0], str) and bv[0] == "MISSING":
                                del values[attr["name"]]
                            else:
                                values[attr["name"]] = bv[0]
                    pos_in_shard = per_split_count[split] % eps
                    try:
                        filler.write_example(values=values,
                                             split=split,
                                             **kwargs)
                        ok = True
                    except Exception as exc:  # pylint: disable=broad-except
                        ok = False
                        err = exc
                    if ok:
                        accepted.append((ex_id, split, is_bad))
                        per_split_count[split] += 1
                        if (is_bad and fmt == "fb" and not shape_violation and
                                w["bad"]["kind"] != "missing" and
                                attr["dtype"] not in ("bytes", "str")):
                            try:
                                vdt = np.asarray(values[attr["name"]]).dtype
                                castable = np.can_cast(vdt, attr["dtype"],
                                                       casting="safe")
                            except TypeError:
                                castable = False
                            if not castable:
                                ctx.fail(
                                    "unsafe-cast-rejected",
                                    ("unsafe-cast-accepted", fmt,
                                     w["bad"]["kind"]),
                                    f"fb enforces the dtype: write #{ex_id} "
                                    f"passed {vdt} for attribute {attr} (not "
                                    f"a safe cast) and was accepted")
                        if is_bad and shape_violation:
                            ctx.fail(
                                "shape-rejected",
                                ("shape-violation-accepted", fmt,
                                 w["bad"]["kind"]),
                                f"{fmt}: write #{ex_id} with {w['bad']} on "
                                f"{attr} was accepted")
                    else:
                        if not is_bad:
                            if bad_seen and declaration_ok:
                                ctx.fail(
                                    "later-valid-accepted",
                                    ("valid-write-rejected-after-bad", fmt,
                                     type(err).__name__),
                                    f"{fmt} eps={eps}: valid write #{ex_id} "
                                    f"to {split} (meta {meta}) raised "
                                    f"{err!r} after an earlier rejected "
                                    f"write; events so far {events}")
                            else:
                                ctx.label("declaration-refused")
                    if is_bad:
                        bad_seen = bad_seen or not ok
                        fp_bits.append((w["bad"]["kind"], attr["dtype"],
                                        pos_in_shard, ok, w["meta"] != 0))
                        ctx.label(f"bad:{w['bad']['kind']}:" +
                                  ("accepted" if ok else "rejected"))
                    events.append((ex_id, split[:2], "bad" if is_bad else "ok",
                                   "acc" if ok else "rej", w["meta"]))
        except Exception as exc:  # pylint: disable=broad-except
            from vlib.core import Violation
            if isinstance(exc, Violation):
                raise
            close_error = exc
        what = (f"{fmt}/{desc['compression']!r} eps={eps} attrs="
                f"{[(a['dtype'], a['shape']) for a in desc['attrs'][1:]]} "
                f"events={events}")
        if close_error is not None:
            any_bad_accepted = any(b for _, _, b in accepted)
            ctx.fail(
                "session-closes",
                ("session-close-raised", fmt, type(close_error).__name__,
                 "after-accepted-bad" if any_bad_accepted else
                 ("after-rejected" if bad_seen else "plain")),
                f"{what}: leaving the filler raised {close_error!r}")
            return
        # ---- reading back -------------------------------------------------
        fresh = Dataset(root / "ds")
        unreadable = False
        for split in dsops.SPLITS[:2]:
            want = [i for i, s, _ in accepted if s == split]
            bad_ids = {i for i, s, b in accepted if s == split and b}
            if not want:
                if split in fresh._dataset_info.splits:  # pylint: disable=protected-access
                    n_rec = fresh._dataset_info.splits[split].number_of_examples  # pylint: disable=protected-access
                    if n_rec != 0:
                        ctx.fail("no-trace", ("count-includes-rejected", fmt),
                                 f"{what}: {split} records {n_rec} examples, "
                                 f"none were accepted")
                continue
            for iface in dsops.INTERFACES:
                if not dsops.interface_applicable(iface, desc):
                    continue
                if iface == "tfdata" and fmt != "tfrec":
                    continue  # wrapper around 'concurrent', TF start-up cost
                try:
                    got = dsops.read_all(fresh, split, iface, shuffle=0,
                                         **({"file_parallelism": 2}
                                            if dsops.iface_accepts(
                                                iface, "file_parallelism")
                                            else {}))
                except BaseException as exc:  # pylint: disable=broad-except
                    if type(exc).__name__ in ("KeyboardInterrupt",
                                              "SystemExit"):
                        raise
                    unreadable = True
                    ctx.fail(
                        "accept-readable",
                        ("accepted-write-unreadable", fmt,
                         "after-accepted-bad" if bad_ids else "good-only",
                         _dtype_class(desc)),
                        f"{what}: reading {split} through {iface} raised "
                        f"{type(exc).__name__}: {str(exc)[:300]}")
                    continue
                ids = []
                for ex in got:
                    i = dsops.ex_id_of(ex)
                    ids.append(i)
                    for a in desc["attrs"]:
                        if a["dtype"] in ("bytes", "str"):
                            continue
                        if a["name"] in ex and tuple(np.asarray(
                                ex[a["name"]]).shape) != tuple(a["shape"]):
                            ctx.fail(
                                "accept-readable",
                                ("wrong-shape-returned", fmt, iface),
                                f"{what}: example {i} attribute {a['name']} "
                                f"has shape {np.asarray(ex[a['name']]).shape}")
                    if i not in bad_ids and not dsops.example_matches(desc, ex):
                        ctx.fail(
                            "no-trace", ("good-example-changed", fmt, iface),
                            f"{what}: good example {i} read through {iface} "
                            f"differs from what was written")
                if Counter(ids) != Counter(want):
                    ctx.fail(
                        "no-trace", ("ids-differ-from-accepted", fmt, iface),
                        f"{what}: {split} via {iface}: " +
                        oracles.multiset_diff(ids, want))
                ctx.count("reads")
            ctx.evaluated()
        if not unreadable:
            res = oracles.exactness_walk(root / "ds", desc, _NoUnlisted(ctx))
            total = res["decoded_total"]
            if total != len(accepted):
                ctx.fail("no-trace", ("count-includes-rejected", fmt),
                         f"{what}: shards hold {total} examples, accepted "
                         f"{len(accepted)}")
        ctx.label("fmt=" + fmt)
        bad_positions = [k for k, w in enumerate(case["writes"]) if w["bad"]]
        if any(0 < k < len(case["writes"]) - 1 for k in bad_positions):
            ctx.nontrivial([
                fmt, [a["dtype"] for a in desc["attrs"][1:]],
                sorted(set(fp_bits))
            ])
    finally:
        dsops.rmtree(root)


def _dtype_class(desc):
    dts = {a["dtype"] for a in desc["attrs"][1:]}
    fmt = desc["fmt"]
    if fmt == "fb" and dts & {"bytes", "str"}:
        return "fb-bytes-str-attribute"
    if fmt == "tfrec" and "float64" in dts:
        return "tfrec-float64-attribute"
    return "supported-declaration"


class _NoUnlisted:
    """ctx proxy: C18 does not assert orphan (unlisted, empty) shard files
    and cannot count shards no reader can decode."""

    def __init__(self, ctx):
        self._ctx = ctx

    def fail(self, clause, signature, details=""):
        if signature[0] == "shard-unlisted":
            return False
        return self._ctx.fail("no-trace", ("metadata-" + signature[0],),
                              details)


def enumerate_grid(tier):
    """Every (format, declared dtype, scalar / rank-2 shape, violation kind)
    cell once: one payload attribute, examples_per_shard 2, six writes of
    which the very first one and the first one after a full shard carry the
    violation (the random stage reaches a given cell of this product only
    once in hundreds of cases)."""
    cases = []
    for fmt, dts in (("fb", DT_FB), ("npz", DT_NPZ), ("tfrec", DT_TFREC)):
        for dt in sorted(set(dts)):
            for shape in ([], [2, 3]):
                if dt in ("bytes", "str") and shape:
                    continue
                for kind in KINDS:
                    attr = {"name": "a0", "dtype": dt, "shape": shape}
                    if bad_value(attr, dsops.value_for(attr, 1, 1),
                                 kind) is None:
                        continue
                    writes = [{"split": 0, "bad": None, "meta": 0}
                              for _ in range(6)]
                    for pos in (0, 3):
                        writes[pos]["bad"] = {"attr": 1, "kind": kind}
                    cases.append({
                        "fmt": fmt,
                        "comp": 0,
                        "eps": 2,
                        "attrs": [{"name": "id", "dtype": "int64",
                                   "shape": []}, attr],
                        "writes": writes,
                    })
    return cases


STAGES = [
    Stage(name="grid",
          run=run_case,
          enumerate=enumerate_grid,
          exhaustive=True,
          fork=True,
          rust=True,
          timeout=150,
          timeout_violation=hang_is_violation(
              "accept-readable", "a session with caught rejected writes (or reading back after it)")),
    Stage(name="writes",
          run=run_case,
          strategy=lambda tier: strategy_case(tier),
          examples={
              "quick": 1600,
              "thorough": 20000
          },
          fork=True,
          rust=True,
          timeout=150,
          timeout_violation=hang_is_violation(
              "accept-readable", "a session with caught rejected writes (or reading back after it)"))
]
