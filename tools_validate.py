"""python3-vt tools_validate.py : validate MANIFEST.json and evidence/*.json"""
import glob, json, sys
import jsonschema
m = json.load(open('MANIFEST.json'))
jsonschema.validate(m, json.load(open('/root/.vp/MANIFEST.schema.json')))
sch = json.load(open('/root/.vp/EVIDENCE.schema.json'))
for f in sorted(glob.glob('evidence/*.json')):
    e = json.load(open(f))
    jsonschema.validate(e, sch)
    print(f, e['tier'], e['coverage']['evaluations'], e['coverage']['distinct_nontrivial'], e.get('violations'))
print("manifest ok:", [c['property_id'] for c in m['checks']])
