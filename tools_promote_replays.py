"""copies the shrunk violation found for each seeded change into replays/<check>/seeded-<name>.json
(a seconds-long regression tier: every check re-runs them first on every run)"""
import glob, json, os, re, shutil
n = 0
for d in sorted(glob.glob("seeded/*")):
    name = os.path.basename(d)
    m = json.load(open(d + "/meta.json"))
    for c, r in m.get("checks_run", {}).items():
        if not r.get("caught"):
            continue
        for l in r.get("lines", []):
            mm = re.search(r"replay=(\S+)", l)
            if not mm:
                continue
            src = mm.group(1)
            if "/violations/" not in src or not os.path.isfile(src):
                continue
            doc = json.load(open(src))
            if len(json.dumps(doc)) > 20000:
                continue
            if doc.get("stage") in ("pause", "long") or os.path.exists(
                    f"replays/{c}/seeded-{name}.json"):
                # replays are re-run by every quick run: keep them cheap
                # (a pause case sleeps 11-21 s), and keep what is there
                continue
            os.makedirs(f"replays/{c}", exist_ok=True)
            dst = f"replays/{c}/seeded-{name}.json"
            doc["note"] = f"shrunk violation found when seeded change {name} was applied; passes on the unchanged tree"
            json.dump(doc, open(dst, "w"), indent=1)
            n += 1
            break
print("promoted", n)
