"""Regenerates MANIFEST.json from the table below (python tools_manifest.py)."""
import json

BASELINE = ("cd /repo && /venv/bin/python -m pytest -ra -q -p no:cacheprovider "
            "--timeout=900 --continue-on-collection-errors")

# id -> (level, technique, level text, level note, design_ref)
CHECKS = {
    "C10": ("exploration",
            "Hypothesis op-lists vs statement-level layout predicates on "
            "independently decoded shards",
            "Generated write sequences (sizes around multiples of eps, "
            "interleaved splits, metadata changes, 1-3 sessions) with the "
            "shard layout predicates of the statement evaluated on a plain-"
            "json walk and on every decoded shard file; sampling, no "
            "exhaustiveness claimed.",
            "Trusts numpy/TF single-file decoding and the harness' own "
            "FlatBuffers walker; sessions that raise are C08's.", "5 C10"),
}

NOT_YET = {}

ALL = [f"C{i:02d}" for i in range(1, 21)]


def main():
    checks = []
    for pid in ALL:
        if pid not in CHECKS:
            continue
        level, tech, text, note, ref = CHECKS[pid]
        checks.append({
            "property_id": pid,
            "quick_cmd": f"./check {pid} --tier quick",
            "thorough_cmd": f"./check {pid} --tier thorough",
            "evidence_file": f"/verif/evidence/{pid}.json",
            "replay_cmd_template": f"./check {pid} --replay {{path}}",
            "engine": "hypothesis-runner",
            "level_claimed": {
                "category": level,
                "text": text,
                "design_ref": "DESIGN.md section " + ref
            },
            "level_note": note,
            "technique": tech,
        })
    na = [{
        "property_id": pid,
        "reason": NOT_YET.get(pid, "check not built yet in this state of "
                              "/verif (design in DESIGN.md section 5); not "
                              "claimed until its check is registered")
    } for pid in ALL if pid not in CHECKS]
    manifest = {
        "version": 1,
        "setup_cmd": "./setup.sh",
        "hooks": {
            "guard": "SEDPACK_VERIF",
            "enable": "no source hooks: all instrumentation is applied from "
                      "outside (attribute patching in forked children, "
                      "inotify, a separate crate linking /repo/rust)",
            "baseline_off_cmd": BASELINE,
            "source_commits": [],
            "add_only": True
        },
        "engines": [{
            "name": "hypothesis-runner",
            "path": "/verif/vlib",
            "serves_properties": [c["property_id"] for c in checks],
            "kind_free_text": "property-based testing: Hypothesis strategies "
                              "and finite enumerations driven over 16 worker "
                              "processes against explicit oracles; shrunk "
                              "failures become replay files"
        }],
        "checks": checks,
        "not_applicable": na,
        "notes": "All checks: ./check <ID> --tier quick|thorough; VERIF_SEED "
                 "selects the Hypothesis seed. Exit 0 held / 1 VIOLATION / 2 "
                 "harness error."
    }
    with open("MANIFEST.json", "w") as f:
        json.dump(manifest, f, indent=1)
        f.write("\n")


if __name__ == "__main__":
    main()
