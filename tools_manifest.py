"""Regenerates MANIFEST.json from the table below (python tools_manifest.py)."""
import json

BASELINE = ("cd /repo && /venv/bin/python -m pytest -ra -q -p no:cacheprovider "
            "--timeout=900 --continue-on-collection-errors")

# id -> (level, technique, level text, level note, design_ref)
CHECKS = {
    "C10": ("exploration",
            "Hypothesis op-lists vs statement-level layout predicates on "
            "independently decoded shards",
            "Generated write sequences (sizes around multiples of eps, "
            "interleaved splits, metadata changes, 1-3 sessions) with the "
            "shard layout predicates of the statement evaluated on a plain-"
            "json walk and on every decoded shard file; sampling, no "
            "exhaustiveness claimed.",
            "Trusts numpy/TF single-file decoding and the harness' own "
            "FlatBuffers walker; sessions that raise are C08's.", "5 C10"),
    "C04": ("exploration",
            "Hypothesis-generated session histories; invariant after every "
            "session: independent plain-json walk + per-file decoding vs the "
            "exactness clauses",
            "Generated histories of completed sessions (root/new/reused/"
            "nested/ancestor sub-directory fillers, in-process and real "
            "multi-process multi-writer calls, reopen or keep) with the "
            "statement's exactness clauses checked after every session by a "
            "walker that shares no code with sedpack's pydantic models; "
            "sampled histories, no exhaustiveness.",
            "Trusts json, numpy/TF single-file decoders and the harness' "
            "FlatBuffers walker; sessions that raise are reported by C08.",
            "5 C04"),
    "C05": ("fault_enumeration",
            "fault injection on generated committed datasets (bit flips, "
            "truncation, extension, deletion, sibling swap, rollback, byte "
            "substitution / insertion, well-formed JSON edits) with a "
            "reference-digest metamorphic oracle; exhaustive offset sweep per "
            "dataset",
            "Positive clause after every session of generated histories; "
            "negative clause by injected faults: sampled faults (stage "
            "faults) and, per generated dataset, every byte offset and every "
            "truncation length of every metadata file, head/tail/strided "
            "offsets of every shard, all deletions, sibling swaps and "
            "rollbacks (stage sweep). Datasets are sampled; within a dataset "
            "the metadata-file offsets are enumerated completely.",
            "A fault creates an obligation only if reference digests "
            "(hashlib one-shot, own XXH32/64, one-shot XXH3) differ from the "
            "recorded ones; description-file faults only with expected root "
            "checksums supplied.", "5 C05"),
    "C08": ("exploration",
            "Hypothesis-generated session histories vs a reference model of "
            "written ids (multiset + content per id) after every session",
            "Generated histories incl. reused/nested/ancestor sub-directories "
            "and create-again; every session must complete, every split must "
            "read back exactly the model multiset with unchanged content on "
            "the kept and a fresh handle; create on an existing dataset must "
            "be refused with the tree byte-identical.",
            "Reads use the synchronous unshuffled reader; the model only "
            "records what was written.", "5 C08"),
    "C16": ("exploration",
            "differential: hash_checksums and every stored checksum vs "
            "independent reference digests (hashlib one-shot, own pure-Python "
            "XXH32/XXH64, one-shot XXH3-128 + published vectors)",
            "Generated files around every multiple of the 128 KiB buffer x "
            "content kinds x algorithm tuples with repetition; a size-grid "
            "enumeration x 13 algorithms; and every checksum stored in the "
            "metadata tree / returned by write_config after every session of "
            "generated histories compared with the reference digest of the "
            "final on-disk bytes in configured order.",
            "XXH3 core of the xxhash wheel is trusted (cross-checked on "
            "published vectors); hashlib one-shot is trusted.", "5 C16"),
    "C02": ("exploration",
            "Hypothesis datasets x generated read configurations vs a "
            "reference multiset model; component-level multiset round-trip on "
            "integer streams",
            "Generated datasets (nested shard lists, short last shards) read "
            "with repeat=False through all five interfaces with shuffle "
            "relative to N, parallelism relative to S, process_record and "
            "generated per-shard delays; Counter(ids)==model and content per "
            "id; process_record applied exactly once. Plus 20k component "
            "cases (shuffle_buffer, round_robin, async twins, LazyPool).",
            "Thread timing of tf.data, Rust and OS threads is perturbed, not "
            "enumerated; the oracle is timing-insensitive.", "5 C02"),
    "C03": ("exploration",
            "Hypothesis histories x repeated/reopened/parallelism-varied "
            "unshuffled passes; sequence equality + per-session write-order "
            "invariant",
            "All passes of one interface (2 on the kept handle, 1 reopened, "
            "several file_parallelism values, generated reader delays) must "
            "be the identical sequence and every session's ids must appear "
            "in write order (multi-writer: argument order).",
            "Worker timing perturbed by generated delays; real multi-process "
            "writers included.", "5 C03"),
    "C12": ("exploration",
            "Hypothesis datasets with metadata groups x selection options vs "
            "a reference selection written from the doc-string, per interface",
            "shards=k, shard_filter (predicate family) and per-metadata limit "
            "and their combinations on every interface that has the "
            "parameter, shuffled and unshuffled; expected = decoded contents "
            "of the reference-selected shard files; empty selection must "
            "raise.",
            "Reference selection derived from the documented semantics "
            "(filter, non-empty, first k, first n per group).", "5 C12"),
    "C14": ("exploration",
            "counting sources (finite/infinite, guarded) through every "
            "buffering component incl. the Rust parallel_map driver; "
            "inotify-counted shard opens for take-k on repeating datasets",
            "Read-ahead after the j-th output bounded by j + (b | 2T+2 | T) "
            "+ 1 for every component; dataset level: shard opens for taking "
            "k examples from a repeating stream bounded by a function of "
            "configured values only, for S and 4S shards.",
            "tf.data native pipeline only gets a generous S-independent "
            "bound; inotify IN_OPEN counts opens.", "5 C14"),
    "C19": ("exploration",
            "Hypothesis datasets x repeating reads; prefix of m*N+r elements "
            "vs periodicity / membership / per-epoch permutation oracles",
            "repeat=True (explicit and default) on every interface; stream "
            "must not end within 2..4 epochs (stage long: 1200..6000 epochs "
            "of a tiny split; stage pause: after the consumer paused 11/21 "
            "s), only examples of the split, unshuffled periodic with the "
            "one-pass sequence of a freshly opened handle, Rust epochs are "
            "permutations, a re-entered RustGenerator stays periodic.",
            "Prefixes only (stream is infinite); tfrec is not part of the "
            "long stage (50 ms per shard open).", "5 C19"),
    "C07": ("fault_enumeration",
            "fault injection: damaged/missing shard x interface x shuffle x "
            "parallelism x repeat cells, decoder-rejection ground truth, "
            "watchdog-guarded forks",
            "Cells of the fault matrix (quick: a grid stratified over format "
            "x compression x interface x damage x shuffle plus "
            "Hypothesis-sampled cells, with and without a caller-supplied "
            "transformation; thorough: the whole matrix enumerated); a cell carries an obligation only "
            "if the file is missing or the interface's own single-shard "
            "decoder rejects it; the pass must raise (no silent skip, no "
            "hang; hang only after a second run with doubled watchdog).",
            "Watchdog 90 s/180 s vs sub-second cells; repeat=True cells "
            "consume 40 epochs before 'silent skip' is concluded.", "5 C07"),
    "C11": ("exploration",
            "Hypothesis write sequences with literal / shared-mutated "
            "metadata objects vs call-time deep copies; filter-by-metadata "
            "round trip",
            "Generated sequences incl. one shared dict mutated in place "
            "(top-level and nested) between writes, A,B,A alternations, "
            "size boundaries, two splits, 1-2 sessions; the shard holding "
            "each labelled example must record the value as it was at call "
            "time and filtering by it must return exactly those examples.",
            "JSON-representable metadata; unlabelled writes carry no "
            "obligation.", "5 C11"),
    "C13": ("exploration",
            "deterministic scheduler shim owning the interleaving at "
            "queue-operation granularity: Hypothesis-generated schedules, "
            "preemption-bounded exhaustive DFS for tiny configurations, "
            "real-thread cross-check",
            "Scenarios complete / abandon@k / fail@j / twice / "
            "abandon-then-reuse / stale generator closed later / two pools in "
            "lock step / abandoned failing iteration then reuse, inputs that "
            "are integers, arrays or equal-to-everything objects, T in 1..4 "
            "(4% of the cases 5..72), under generated schedules of T+1 "
            "threads; "
            "deadlock and thread leaks detected without a clock; timed "
            "get/put may time out whenever they cannot proceed. DFS: all "
            "schedules with <=1 (quick) / <=2 (thorough) preemptions for "
            "T<=2,n<=3 (exhaustive only within that bound and only for "
            "configurations labelled dfs-complete).",
            "Atomicity between queue operations of one thread; other "
            "synchronisation primitives are refused (inconclusive) and left "
            "to the real-thread stage.", "5 C13"),
    "C18": ("exploration",
            "Hypothesis write sequences with injected invalid values "
            "(7 violation kinds x attribute x position) vs reject-no-trace / "
            "accept-readable oracles over all readers",
            "Supported and unsupported declarations, bad writes caught by "
            "the caller inside the filler context, later valid writes must "
            "be accepted, session must close, every interface must read "
            "exactly the accepted ids with declared shapes; exactness walk "
            "excludes rejected writes.",
            "Orphan empty shard files and extra dict keys are outside the "
            "statement.", "5 C18"),
    "C01": ("exploration",
            "round-trip over generated bit patterns x presentations x "
            "readers (Hypothesis), bitwise comparison against the logical "
            "array",
            "Values drawn as bit patterns with planted specials, shapes of "
            "rank 0-4, 9 presentations (C/F/strided/transposed/big-endian/"
            "narrower dtype/scalar/Python objects/buffer reuse), every "
            "format x compression, all applicable readers on the same "
            "dataset; fb dtype+bits, npz bits after safe cast, tfrec widened "
            "ints / float bits / bytes / UTF-8. Also: dict key order, "
            "refused malformed writes in between, examples above 1 MiB, and "
            "an enumerated grid (stage widen) of format x declared dtype x "
            "narrower dtype with all special values of the narrower dtype.",
            "float128 and bool excluded; two open known findings (npz "
            "trailing NUL, tfrec float32 signalling NaN) are excluded by "
            "signature and counted.", "5 C01"),
    "C17": ("exploration",
            "grammar-generated path strings injected into every path-valued "
            "metadata field (checksum chain repaired, decoy planted) and into "
            "the filler sub-directory; audit hook + inotify containment "
            "oracle",
            "Independent lexical resolution decides whether a path escapes; "
            "no file outside the root may be opened during open/check/two "
            "passes, escaping metadata must be refused, everything a writer "
            "creates must lie inside the root.",
            "No symbolic links; Python opens via audit hook, native opens "
            "via inotify on the sandbox outside the root.", "5 C17"),
    "C20": ("exploration",
            "round-trip of generated descriptions (type-aware deep "
            "equality), relocation metamorphic test, version-triple gate vs "
            "tuple comparison",
            "Unicode text fields and nested JSON custom metadata at dataset/"
            "attribute/shard level; copy or move to generated targets opened "
            "by absolute or relative path from generated working "
            "directories, then check, iterate, append, exactness walk; "
            "version triples around the running version.",
            "JSON-representable values only; no symlinks.", "5 C20"),
    "C09": ("exploration",
            "differential: real multi-process write_multiprocessing vs the "
            "same writers in-process, with a pid-attributed effect log "
            "(fork-inherited wrappers) and a structural non-interference "
            "oracle",
            "Generated writer lists (uneven loads, several splits, empty "
            "writers, per-writer delays) run with real worker processes; "
            "multisets, per-writer order, return values, exactness walk, "
            "check(); every file written by exactly one worker, under that "
            "writer's own directory.",
            "OS scheduling is perturbed, not enumerated; overlap of writer "
            "intervals is measured and is the non-triviality rule.", "5 C09"),
    "C15": ("exploration",
            "differential Rust reader vs Python reader on generated skewed "
            "datasets; generated delay patterns through a driver binary "
            "linked against the repo's parallel_map",
            "Sequence/bitwise equality unshuffled, multiset shuffled, for T "
            "<,=,> S, shards/filter options, early drop with OS thread "
            "accounting, two live native iterators interleaved across "
            "epochs; parallel_map output order/length and thread cleanup "
            "under adversarial per-item delays and early drop.",
            "Rust thread schedules are perturbed (size skew, sleeps), not "
            "owned.", "5 C15"),
    "C06": ("fault_enumeration",
            "crash-point enumeration: every system-call boundary and "
            "generated partial write of an observed session is snapshotted "
            "and judged by an old-or-new / complete-shards / bounded-"
            "multiset oracle; slow-reader state pairs",
            "Histories are generated (Hypothesis); within a history every "
            "boundary (create, each os.write incl. partial prefixes, close, "
            "replace, mkdir, TFRecordWriter calls) is a crash point. Every "
            "distinct state must have complete old-or-new metadata files, "
            "open, list only complete shards matching reference digests, "
            "and iterate to committed <= result <= committed + started with "
            "intact examples; also for description-from-i / lists-from-j "
            "readers.",
            "OS stays up (no reordering); TF C++ writer observed per Python "
            "method; in-process multi-writer (real processes are C09).",
            "5 C06"),
}

NOT_YET = {}

ALL = [f"C{i:02d}" for i in range(1, 21)]


def main():
    checks = []
    for pid in ALL:
        if pid not in CHECKS:
            continue
        level, tech, text, note, ref = CHECKS[pid]
        checks.append({
            "property_id": pid,
            "quick_cmd": f"./check {pid} --tier quick",
            "thorough_cmd": f"./check {pid} --tier thorough",
            "evidence_file": f"/verif/evidence/{pid}.json",
            "replay_cmd_template": f"./check {pid} --replay {{path}}",
            "engine": "hypothesis-runner",
            "level_claimed": {
                "category": level,
                "text": text,
                "design_ref": "DESIGN.md section " + ref
            },
            "level_note": note,
            "technique": tech,
        })
    na = [{
        "property_id": pid,
        "reason": NOT_YET.get(pid, "check not built yet in this state of "
                              "/verif (design in DESIGN.md section 5); not "
                              "claimed until its check is registered")
    } for pid in ALL if pid not in CHECKS]
    manifest = {
        "version": 1,
        "setup_cmd": "./setup.sh",
        "hooks": {
            "guard": "SEDPACK_VERIF",
            "enable": "no source hooks: all instrumentation is applied from "
                      "outside (attribute patching in forked children, "
                      "inotify, a separate crate linking /repo/rust)",
            "baseline_off_cmd": BASELINE,
            "source_commits": [],
            "add_only": True
        },
        "engines": [{
            "name": "hypothesis-runner",
            "path": "/verif/vlib",
            "serves_properties": [c["property_id"] for c in checks],
            "kind_free_text": "property-based testing: Hypothesis strategies "
                              "and finite enumerations driven over 16 worker "
                              "processes against explicit oracles; shrunk "
                              "failures become replay files"
        }],
        "checks": checks,
        "not_applicable": na,
        "notes": "All checks: ./check <ID> --tier quick|thorough; VERIF_SEED "
                 "selects the Hypothesis seed. Exit 0 held / 1 VIOLATION / 2 "
                 "harness error."
    }
    with open("MANIFEST.json", "w") as f:
        json.dump(manifest, f, indent=1)
        f.write("\n")


if __name__ == "__main__":
    main()
