"""prints the sensitivity table (markdown) from seeded/*/meta.json"""
import glob, json, os
rows = []
for d in sorted(glob.glob("seeded/*")):
    m = json.load(open(os.path.join(d, "meta.json")))
    name = os.path.basename(d)
    summ = (m.get("summary") or "").replace("\n", " ").replace("|", "/")
    if len(summ) > 150:
        summ = summ[:147] + "..."
    needs = (m.get("needs_to_manifest") or "").replace("\n", " ").replace("|", "/")
    if len(needs) > 130:
        needs = needs[:127] + "..."
    caught = []
    for c, r in m.get("checks_run", {}).items():
        if r.get("caught"):
            sig = ""
            for l in r.get("lines", []):
                if "signature=" in l:
                    sig = l.split("signature=")[1]
            caught.append(f"{c} ({sig})")
        else:
            caught.append(f"{c}: NOT caught (rc={r.get('rc')})")
    fc = m.get("first_contact")
    if fc is not None:
        own = name.split("-")[0]
        r0 = fc.get(own, {})
        first = ("caught" if r0.get("caught") else
                 ("harness error" if r0.get("rc") == 2 else "missed"))
    else:
        first = "-"
    conf = m.get("confirmed_by_me", {})
    ok = all(conf.get(k) for k in ("demo_fails_with_change", "tests_pass_with_change", "demo_passes_without_change"))
    rows.append(f"| {name} | {m.get('language','python')} | {summ} | {needs} | {'yes' if ok else 'NO'} | {first} | {'; '.join(caught)} |")
print("| seeded change | lang | what it does | needs to manifest | confirmed (tests pass, demo fails/passes) | blind first contact | caught by (quick tier, final checks) |")
print("|---|---|---|---|---|---|---|")
print("\n".join(rows))
