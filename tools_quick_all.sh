#!/bin/sh
# runs every check's quick command (rewrites evidence); one summary line per check
for c in C01 C02 C03 C04 C05 C06 C07 C08 C09 C10 C11 C12 C13 C14 C15 C16 C17 C18 C19 C20; do
  ./check $c --tier quick > /tmp/quick_$c.log 2>&1
  echo "$c rc=$? $(head -1 /tmp/quick_$c.log | cut -c1-110)"
  grep -E "^VIOLATION|^HARNESS" /tmp/quick_$c.log | head -3
done
