#!/bin/sh
# runs every check in the thorough tier once (no evidence rewrite); prints one summary line per check
for c in C10 C11 C16 C04 C08 C09 C12 C15 C17 C20 C01 C02 C03 C05 C06 C07 C13 C14 C18 C19; do
  start=$(date +%s)
  ./check $c --tier thorough --no-evidence > thorough_$c.log 2>&1
  rc=$?
  end=$(date +%s)
  echo "$c rc=$rc wall=$((end-start))s $(head -1 thorough_$c.log)"
  grep -E "^VIOLATION|^HARNESS|^KNOWN" thorough_$c.log | head -5
done
