#!/bin/sh
# runs every check in the thorough tier once (no evidence rewrite); prints one summary line per check
for c in ${THOROUGH_ORDER:-C19 C13 C01 C15 C07 C16 C17 C09 C03 C11 C10 C06 C14 C02 C05 C12 C20 C04 C08 C18}; do
  start=$(date +%s)
  ./check $c --tier thorough --no-evidence > thorough_$c.log 2>&1
  rc=$?
  end=$(date +%s)
  echo "$c rc=$rc wall=$((end-start))s $(head -1 thorough_$c.log)"
  grep -E "^VIOLATION|^HARNESS|^KNOWN" thorough_$c.log | head -5
done
